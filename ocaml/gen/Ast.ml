open Ascii
open BinNums
open Json
open List
open Str
open String

type node =
| NScalar of jv
| NArr of node list
| NObj of node list
| Field of str * node
| Ident of str * coq_N * bool
| BIdent of str * coq_N * bool * node
| IdName of str
| Str of str * node
| Num of str * node
| Bool of bool
| Null
| Arr of node list
| Elem of bool * node
| Hole
| Obj of node list
| KV of node * node
| Computed of node
| Spread of node
| Call of bool * coq_N * node * node list * node
| Arrow of coq_N * node list * node * bool * bool * node * node
| Assign of str * node * node
| Paren of node
| Cond of node * node * node
| Bin of str * node * node
| Unary of str * node
| Member of node * node
| Block of coq_N * node list
| JsxE of node * node list * bool * node * node list * node
| JsxF of node list
| JAttr of node * node
| JNs of node * node
| JExprC of node
| JEmpty
| JText of str * str
| JSpreadChild of node

(** val nnull : node **)

let nnull =
  NScalar JNull

(** val sq : string -> str -> bool **)

let sq x y =
  str_eqb (s_ x) y

(** val dec0 : jv -> node **)

let rec dec0 j = match j with
| JArr l ->
  NArr (let rec go = function
        | [] -> []
        | x :: r -> (dec0 x) :: (go r)
        in go l)
| JObj l ->
  NObj
    (let rec go = function
     | [] -> []
     | p :: r -> let (k, x) = p in (Field (k, (dec0 x))) :: (go r)
     in go l)
| _ -> NScalar j

(** val fval : node -> node **)

let fval = function
| Field (_, v) -> v
| _ -> nnull

(** val keys_ok : node list -> string list -> bool **)

let rec keys_ok fs ks =
  match fs with
  | [] -> (match ks with
           | [] -> true
           | _ :: _ -> false)
  | f :: fs' ->
    (match ks with
     | [] -> false
     | k :: ks' ->
       (&&) (match f with
             | Field (k', _) -> sq k k'
             | _ -> false) (keys_ok fs' ks'))

(** val as_list : node -> node list option **)

let as_list = function
| NArr l -> Some l
| _ -> None

(** val as_bool : node -> bool option **)

let as_bool = function
| NScalar j -> (match j with
                | JBool b -> Some b
                | _ -> None)
| _ -> None

(** val as_str : node -> str option **)

let as_str = function
| NScalar j -> (match j with
                | JStr s -> Some s
                | _ -> None)
| _ -> None

(** val as_num : node -> str option **)

let as_num = function
| NScalar j -> (match j with
                | JNum s -> Some s
                | _ -> None)
| _ -> None

(** val as_N : node -> coq_N option **)

let as_N = function
| NScalar j -> (match j with
                | JNum s -> coq_N_of_dec s
                | _ -> None)
| _ -> None

(** val is_null_or_true : node -> bool option **)

let is_null_or_true = function
| NScalar j ->
  (match j with
   | JNull -> Some false
   | JBool b -> if b then Some true else None
   | _ -> None)
| _ -> None

(** val classify_typed : str -> node list -> node option **)

let classify_typed ty r =
  if sq (String ((Ascii (true, false, false, true, false, false, true,
       false)), (String ((Ascii (false, false, true, false, false, true,
       true, false)), (String ((Ascii (true, false, true, false, false, true,
       true, false)), (String ((Ascii (false, true, true, true, false, true,
       true, false)), (String ((Ascii (false, false, true, false, true, true,
       true, false)), (String ((Ascii (true, false, false, true, false, true,
       true, false)), (String ((Ascii (false, true, true, false, false, true,
       true, false)), (String ((Ascii (true, false, false, true, false, true,
       true, false)), (String ((Ascii (true, false, true, false, false, true,
       true, false)), (String ((Ascii (false, true, false, false, true, true,
       true, false)), EmptyString)))))))))))))))))))) ty
  then (match r with
        | [] -> None
        | v :: l ->
          (match l with
           | [] ->
             if keys_ok r ((String ((Ascii (false, true, true, false, true,
                  true, true, false)), (String ((Ascii (true, false, false,
                  false, false, true, true, false)), (String ((Ascii (false,
                  false, true, true, false, true, true, false)), (String
                  ((Ascii (true, false, true, false, true, true, true,
                  false)), (String ((Ascii (true, false, true, false, false,
                  true, true, false)), EmptyString)))))))))) :: [])
             then (match as_str (fval v) with
                   | Some v' -> Some (IdName v')
                   | None -> None)
             else None
           | v0 :: l0 ->
             (match l0 with
              | [] -> None
              | o :: l1 ->
                (match l1 with
                 | [] ->
                   if keys_ok r ((String ((Ascii (true, true, false, false,
                        false, true, true, false)), (String ((Ascii (false,
                        false, true, false, true, true, true, false)),
                        (String ((Ascii (false, false, false, true, true,
                        true, true, false)), (String ((Ascii (false, false,
                        true, false, true, true, true, false)),
                        EmptyString)))))))) :: ((String ((Ascii (false, true,
                        true, false, true, true, true, false)), (String
                        ((Ascii (true, false, false, false, false, true,
                        true, false)), (String ((Ascii (false, false, true,
                        true, false, true, true, false)), (String ((Ascii
                        (true, false, true, false, true, true, true, false)),
                        (String ((Ascii (true, false, true, false, false,
                        true, true, false)),
                        EmptyString)))))))))) :: ((String ((Ascii (true,
                        true, true, true, false, true, true, false)), (String
                        ((Ascii (false, false, false, false, true, true,
                        true, false)), (String ((Ascii (false, false, true,
                        false, true, true, true, false)), (String ((Ascii
                        (true, false, false, true, false, true, true,
                        false)), (String ((Ascii (true, true, true, true,
                        false, true, true, false)), (String ((Ascii (false,
                        true, true, true, false, true, true, false)), (String
                        ((Ascii (true, false, false, false, false, true,
                        true, false)), (String ((Ascii (false, false, true,
                        true, false, true, true, false)),
                        EmptyString)))))))))))))))) :: [])))
                   then (match as_N (fval v) with
                         | Some c' ->
                           (match as_str (fval v0) with
                            | Some v' ->
                              (match as_bool (fval o) with
                               | Some o' -> Some (Ident (v', c', o'))
                               | None -> None)
                            | None -> None)
                         | None -> None)
                   else None
                 | t :: l2 ->
                   (match l2 with
                    | [] ->
                      if keys_ok r ((String ((Ascii (true, true, false,
                           false, false, true, true, false)), (String ((Ascii
                           (false, false, true, false, true, true, true,
                           false)), (String ((Ascii (false, false, false,
                           true, true, true, true, false)), (String ((Ascii
                           (false, false, true, false, true, true, true,
                           false)), EmptyString)))))))) :: ((String ((Ascii
                           (false, true, true, false, true, true, true,
                           false)), (String ((Ascii (true, false, false,
                           false, false, true, true, false)), (String ((Ascii
                           (false, false, true, true, false, true, true,
                           false)), (String ((Ascii (true, false, true,
                           false, true, true, true, false)), (String ((Ascii
                           (true, false, true, false, false, true, true,
                           false)), EmptyString)))))))))) :: ((String ((Ascii
                           (true, true, true, true, false, true, true,
                           false)), (String ((Ascii (false, false, false,
                           false, true, true, true, false)), (String ((Ascii
                           (false, false, true, false, true, true, true,
                           false)), (String ((Ascii (true, false, false,
                           true, false, true, true, false)), (String ((Ascii
                           (true, true, true, true, false, true, true,
                           false)), (String ((Ascii (false, true, true, true,
                           false, true, true, false)), (String ((Ascii (true,
                           false, false, false, false, true, true, false)),
                           (String ((Ascii (false, false, true, true, false,
                           true, true, false)),
                           EmptyString)))))))))))))))) :: ((String ((Ascii
                           (false, false, true, false, true, true, true,
                           false)), (String ((Ascii (true, false, false,
                           true, true, true, true, false)), (String ((Ascii
                           (false, false, false, false, true, true, true,
                           false)), (String ((Ascii (true, false, true,
                           false, false, true, true, false)), (String ((Ascii
                           (true, false, false, false, false, false, true,
                           false)), (String ((Ascii (false, true, true, true,
                           false, true, true, false)), (String ((Ascii
                           (false, true, true, true, false, true, true,
                           false)), (String ((Ascii (true, true, true, true,
                           false, true, true, false)), (String ((Ascii
                           (false, false, true, false, true, true, true,
                           false)), (String ((Ascii (true, false, false,
                           false, false, true, true, false)), (String ((Ascii
                           (false, false, true, false, true, true, true,
                           false)), (String ((Ascii (true, false, false,
                           true, false, true, true, false)), (String ((Ascii
                           (true, true, true, true, false, true, true,
                           false)), (String ((Ascii (false, true, true, true,
                           false, true, true, false)),
                           EmptyString)))))))))))))))))))))))))))) :: []))))
                      then (match as_N (fval v) with
                            | Some c' ->
                              (match as_str (fval v0) with
                               | Some v' ->
                                 (match as_bool (fval o) with
                                  | Some o' ->
                                    Some (BIdent (v', c', o', (fval t)))
                                  | None -> None)
                               | None -> None)
                            | None -> None)
                      else None
                    | _ :: _ -> None)))))
  else if sq (String ((Ascii (true, true, false, false, true, false, true,
            false)), (String ((Ascii (false, false, true, false, true, true,
            true, false)), (String ((Ascii (false, true, false, false, true,
            true, true, false)), (String ((Ascii (true, false, false, true,
            false, true, true, false)), (String ((Ascii (false, true, true,
            true, false, true, true, false)), (String ((Ascii (true, true,
            true, false, false, true, true, false)), (String ((Ascii (false,
            false, true, true, false, false, true, false)), (String ((Ascii
            (true, false, false, true, false, true, true, false)), (String
            ((Ascii (false, false, true, false, true, true, true, false)),
            (String ((Ascii (true, false, true, false, false, true, true,
            false)), (String ((Ascii (false, true, false, false, true, true,
            true, false)), (String ((Ascii (true, false, false, false, false,
            true, true, false)), (String ((Ascii (false, false, true, true,
            false, true, true, false)), EmptyString))))))))))))))))))))))))))
            ty
       then (match r with
             | [] -> None
             | v :: l ->
               (match l with
                | [] -> None
                | w :: l0 ->
                  (match l0 with
                   | [] ->
                     if keys_ok r ((String ((Ascii (false, true, true, false,
                          true, true, true, false)), (String ((Ascii (true,
                          false, false, false, false, true, true, false)),
                          (String ((Ascii (false, false, true, true, false,
                          true, true, false)), (String ((Ascii (true, false,
                          true, false, true, true, true, false)), (String
                          ((Ascii (true, false, true, false, false, true,
                          true, false)), EmptyString)))))))))) :: ((String
                          ((Ascii (false, true, false, false, true, true,
                          true, false)), (String ((Ascii (true, false, false,
                          false, false, true, true, false)), (String ((Ascii
                          (true, true, true, false, true, true, true,
                          false)), EmptyString)))))) :: []))
                     then (match as_str (fval v) with
                           | Some v' -> Some (Str (v', (fval w)))
                           | None -> None)
                     else None
                   | _ :: _ -> None)))
       else if sq (String ((Ascii (false, true, true, true, false, false,
                 true, false)), (String ((Ascii (true, false, true, false,
                 true, true, true, false)), (String ((Ascii (true, false,
                 true, true, false, true, true, false)), (String ((Ascii
                 (true, false, true, false, false, true, true, false)),
                 (String ((Ascii (false, true, false, false, true, true,
                 true, false)), (String ((Ascii (true, false, false, true,
                 false, true, true, false)), (String ((Ascii (true, true,
                 false, false, false, true, true, false)), (String ((Ascii
                 (false, false, true, true, false, false, true, false)),
                 (String ((Ascii (true, false, false, true, false, true,
                 true, false)), (String ((Ascii (false, false, true, false,
                 true, true, true, false)), (String ((Ascii (true, false,
                 true, false, false, true, true, false)), (String ((Ascii
                 (false, true, false, false, true, true, true, false)),
                 (String ((Ascii (true, false, false, false, false, true,
                 true, false)), (String ((Ascii (false, false, true, true,
                 false, true, true, false)),
                 EmptyString)))))))))))))))))))))))))))) ty
            then (match r with
                  | [] -> None
                  | v :: l ->
                    (match l with
                     | [] -> None
                     | w :: l0 ->
                       (match l0 with
                        | [] ->
                          if keys_ok r ((String ((Ascii (false, true, true,
                               false, true, true, true, false)), (String
                               ((Ascii (true, false, false, false, false,
                               true, true, false)), (String ((Ascii (false,
                               false, true, true, false, true, true, false)),
                               (String ((Ascii (true, false, true, false,
                               true, true, true, false)), (String ((Ascii
                               (true, false, true, false, false, true, true,
                               false)), EmptyString)))))))))) :: ((String
                               ((Ascii (false, true, false, false, true,
                               true, true, false)), (String ((Ascii (true,
                               false, false, false, false, true, true,
                               false)), (String ((Ascii (true, true, true,
                               false, true, true, true, false)),
                               EmptyString)))))) :: []))
                          then (match as_num (fval v) with
                                | Some v' -> Some (Num (v', (fval w)))
                                | None -> None)
                          else None
                        | _ :: _ -> None)))
            else if sq (String ((Ascii (false, true, false, false, false,
                      false, true, false)), (String ((Ascii (true, true,
                      true, true, false, true, true, false)), (String ((Ascii
                      (true, true, true, true, false, true, true, false)),
                      (String ((Ascii (false, false, true, true, false, true,
                      true, false)), (String ((Ascii (true, false, true,
                      false, false, true, true, false)), (String ((Ascii
                      (true, false, false, false, false, true, true, false)),
                      (String ((Ascii (false, true, true, true, false, true,
                      true, false)), (String ((Ascii (false, false, true,
                      true, false, false, true, false)), (String ((Ascii
                      (true, false, false, true, false, true, true, false)),
                      (String ((Ascii (false, false, true, false, true, true,
                      true, false)), (String ((Ascii (true, false, true,
                      false, false, true, true, false)), (String ((Ascii
                      (false, true, false, false, true, true, true, false)),
                      (String ((Ascii (true, false, false, false, false,
                      true, true, false)), (String ((Ascii (false, false,
                      true, true, false, true, true, false)),
                      EmptyString)))))))))))))))))))))))))))) ty
                 then (match r with
                       | [] -> None
                       | v :: l ->
                         (match l with
                          | [] ->
                            if keys_ok r ((String ((Ascii (false, true, true,
                                 false, true, true, true, false)), (String
                                 ((Ascii (true, false, false, false, false,
                                 true, true, false)), (String ((Ascii (false,
                                 false, true, true, false, true, true,
                                 false)), (String ((Ascii (true, false, true,
                                 false, true, true, true, false)), (String
                                 ((Ascii (true, false, true, false, false,
                                 true, true, false)),
                                 EmptyString)))))))))) :: [])
                            then (match as_bool (fval v) with
                                  | Some b -> Some (Bool b)
                                  | None -> None)
                            else None
                          | _ :: _ -> None))
                 else if sq (String ((Ascii (false, true, true, true, false,
                           false, true, false)), (String ((Ascii (true,
                           false, true, false, true, true, true, false)),
                           (String ((Ascii (false, false, true, true, false,
                           true, true, false)), (String ((Ascii (false,
                           false, true, true, false, true, true, false)),
                           (String ((Ascii (false, false, true, true, false,
                           false, true, false)), (String ((Ascii (true,
                           false, false, true, false, true, true, false)),
                           (String ((Ascii (false, false, true, false, true,
                           true, true, false)), (String ((Ascii (true, false,
                           true, false, false, true, true, false)), (String
                           ((Ascii (false, true, false, false, true, true,
                           true, false)), (String ((Ascii (true, false,
                           false, false, false, true, true, false)), (String
                           ((Ascii (false, false, true, true, false, true,
                           true, false)), EmptyString)))))))))))))))))))))) ty
                      then (match r with
                            | [] -> Some Null
                            | _ :: _ -> None)
                      else if sq (String ((Ascii (true, false, false, false,
                                false, false, true, false)), (String ((Ascii
                                (false, true, false, false, true, true, true,
                                false)), (String ((Ascii (false, true, false,
                                false, true, true, true, false)), (String
                                ((Ascii (true, false, false, false, false,
                                true, true, false)), (String ((Ascii (true,
                                false, false, true, true, true, true,
                                false)), (String ((Ascii (true, false, true,
                                false, false, false, true, false)), (String
                                ((Ascii (false, false, false, true, true,
                                true, true, false)), (String ((Ascii (false,
                                false, false, false, true, true, true,
                                false)), (String ((Ascii (false, true, false,
                                false, true, true, true, false)), (String
                                ((Ascii (true, false, true, false, false,
                                true, true, false)), (String ((Ascii (true,
                                true, false, false, true, true, true,
                                false)), (String ((Ascii (true, true, false,
                                false, true, true, true, false)), (String
                                ((Ascii (true, false, false, true, false,
                                true, true, false)), (String ((Ascii (true,
                                true, true, true, false, true, true, false)),
                                (String ((Ascii (false, true, true, true,
                                false, true, true, false)),
                                EmptyString)))))))))))))))))))))))))))))) ty
                           then (match r with
                                 | [] -> None
                                 | e :: l ->
                                   (match l with
                                    | [] ->
                                      if keys_ok r ((String ((Ascii (true,
                                           false, true, false, false, true,
                                           true, false)), (String ((Ascii
                                           (false, false, true, true, false,
                                           true, true, false)), (String
                                           ((Ascii (true, false, true, false,
                                           false, true, true, false)),
                                           (String ((Ascii (true, false,
                                           true, true, false, true, true,
                                           false)), (String ((Ascii (true,
                                           false, true, false, false, true,
                                           true, false)), (String ((Ascii
                                           (false, true, true, true, false,
                                           true, true, false)), (String
                                           ((Ascii (false, false, true,
                                           false, true, true, true, false)),
                                           (String ((Ascii (true, true,
                                           false, false, true, true, true,
                                           false)),
                                           EmptyString)))))))))))))))) :: [])
                                      then (match as_list (fval e) with
                                            | Some l0 ->
                                              Some (Arr
                                                (map (fun x ->
                                                  match x with
                                                  | NScalar j ->
                                                    (match j with
                                                     | JNull -> Hole
                                                     | _ -> x)
                                                  | _ -> x) l0))
                                            | None -> None)
                                      else None
                                    | _ :: _ -> None))
                           else if sq (String ((Ascii (true, true, true,
                                     true, false, false, true, false)),
                                     (String ((Ascii (false, true, false,
                                     false, false, true, true, false)),
                                     (String ((Ascii (false, true, false,
                                     true, false, true, true, false)),
                                     (String ((Ascii (true, false, true,
                                     false, false, true, true, false)),
                                     (String ((Ascii (true, true, false,
                                     false, false, true, true, false)),
                                     (String ((Ascii (false, false, true,
                                     false, true, true, true, false)),
                                     (String ((Ascii (true, false, true,
                                     false, false, false, true, false)),
                                     (String ((Ascii (false, false, false,
                                     true, true, true, true, false)), (String
                                     ((Ascii (false, false, false, false,
                                     true, true, true, false)), (String
                                     ((Ascii (false, true, false, false,
                                     true, true, true, false)), (String
                                     ((Ascii (true, false, true, false,
                                     false, true, true, false)), (String
                                     ((Ascii (true, true, false, false, true,
                                     true, true, false)), (String ((Ascii
                                     (true, true, false, false, true, true,
                                     true, false)), (String ((Ascii (true,
                                     false, false, true, false, true, true,
                                     false)), (String ((Ascii (true, true,
                                     true, true, false, true, true, false)),
                                     (String ((Ascii (false, true, true,
                                     true, false, true, true, false)),
                                     EmptyString))))))))))))))))))))))))))))))))
                                     ty
                                then (match r with
                                      | [] -> None
                                      | p :: l ->
                                        (match l with
                                         | [] ->
                                           if keys_ok r ((String ((Ascii
                                                (false, false, false, false,
                                                true, true, true, false)),
                                                (String ((Ascii (false, true,
                                                false, false, true, true,
                                                true, false)), (String
                                                ((Ascii (true, true, true,
                                                true, false, true, true,
                                                false)), (String ((Ascii
                                                (false, false, false, false,
                                                true, true, true, false)),
                                                (String ((Ascii (true, false,
                                                true, false, false, true,
                                                true, false)), (String
                                                ((Ascii (false, true, false,
                                                false, true, true, true,
                                                false)), (String ((Ascii
                                                (false, false, true, false,
                                                true, true, true, false)),
                                                (String ((Ascii (true, false,
                                                false, true, false, true,
                                                true, false)), (String
                                                ((Ascii (true, false, true,
                                                false, false, true, true,
                                                false)), (String ((Ascii
                                                (true, true, false, false,
                                                true, true, true, false)),
                                                EmptyString)))))))))))))))))))) :: [])
                                           then (match as_list (fval p) with
                                                 | Some l0 -> Some (Obj l0)
                                                 | None -> None)
                                           else None
                                         | _ :: _ -> None))
                                else if sq (String ((Ascii (true, true,
                                          false, true, false, false, true,
                                          false)), (String ((Ascii (true,
                                          false, true, false, false, true,
                                          true, false)), (String ((Ascii
                                          (true, false, false, true, true,
                                          true, true, false)), (String
                                          ((Ascii (false, true, true, false,
                                          true, false, true, false)), (String
                                          ((Ascii (true, false, false, false,
                                          false, true, true, false)), (String
                                          ((Ascii (false, false, true, true,
                                          false, true, true, false)), (String
                                          ((Ascii (true, false, true, false,
                                          true, true, true, false)), (String
                                          ((Ascii (true, false, true, false,
                                          false, true, true, false)), (String
                                          ((Ascii (false, false, false,
                                          false, true, false, true, false)),
                                          (String ((Ascii (false, true,
                                          false, false, true, true, true,
                                          false)), (String ((Ascii (true,
                                          true, true, true, false, true,
                                          true, false)), (String ((Ascii
                                          (false, false, false, false, true,
                                          true, true, false)), (String
                                          ((Ascii (true, false, true, false,
                                          false, true, true, false)), (String
                                          ((Ascii (false, true, false, false,
                                          true, true, true, false)), (String
                                          ((Ascii (false, false, true, false,
                                          true, true, true, false)), (String
                                          ((Ascii (true, false, false, true,
                                          true, true, true, false)),
                                          EmptyString))))))))))))))))))))))))))))))))
                                          ty
                                     then (match r with
                                           | [] -> None
                                           | k :: l ->
                                             (match l with
                                              | [] -> None
                                              | v :: l0 ->
                                                (match l0 with
                                                 | [] ->
                                                   if keys_ok r ((String
                                                        ((Ascii (true, true,
                                                        false, true, false,
                                                        true, true, false)),
                                                        (String ((Ascii
                                                        (true, false, true,
                                                        false, false, true,
                                                        true, false)),
                                                        (String ((Ascii
                                                        (true, false, false,
                                                        true, true, true,
                                                        true, false)),
                                                        EmptyString)))))) :: ((String
                                                        ((Ascii (false, true,
                                                        true, false, true,
                                                        true, true, false)),
                                                        (String ((Ascii
                                                        (true, false, false,
                                                        false, false, true,
                                                        true, false)),
                                                        (String ((Ascii
                                                        (false, false, true,
                                                        true, false, true,
                                                        true, false)),
                                                        (String ((Ascii
                                                        (true, false, true,
                                                        false, true, true,
                                                        true, false)),
                                                        (String ((Ascii
                                                        (true, false, true,
                                                        false, false, true,
                                                        true, false)),
                                                        EmptyString)))))))))) :: []))
                                                   then Some (KV ((fval k),
                                                          (fval v)))
                                                   else None
                                                 | _ :: _ -> None)))
                                     else if sq (String ((Ascii (true, true,
                                               false, false, false, false,
                                               true, false)), (String ((Ascii
                                               (true, true, true, true,
                                               false, true, true, false)),
                                               (String ((Ascii (true, false,
                                               true, true, false, true, true,
                                               false)), (String ((Ascii
                                               (false, false, false, false,
                                               true, true, true, false)),
                                               (String ((Ascii (true, false,
                                               true, false, true, true, true,
                                               false)), (String ((Ascii
                                               (false, false, true, false,
                                               true, true, true, false)),
                                               (String ((Ascii (true, false,
                                               true, false, false, true,
                                               true, false)), (String ((Ascii
                                               (false, false, true, false,
                                               false, true, true, false)),
                                               EmptyString)))))))))))))))) ty
                                          then (match r with
                                                | [] -> None
                                                | e :: l ->
                                                  (match l with
                                                   | [] ->
                                                     if keys_ok r ((String
                                                          ((Ascii (true,
                                                          false, true, false,
                                                          false, true, true,
                                                          false)), (String
                                                          ((Ascii (false,
                                                          false, false, true,
                                                          true, true, true,
                                                          false)), (String
                                                          ((Ascii (false,
                                                          false, false,
                                                          false, true, true,
                                                          true, false)),
                                                          (String ((Ascii
                                                          (false, true,
                                                          false, false, true,
                                                          true, true,
                                                          false)), (String
                                                          ((Ascii (true,
                                                          false, true, false,
                                                          false, true, true,
                                                          false)), (String
                                                          ((Ascii (true,
                                                          true, false, false,
                                                          true, true, true,
                                                          false)), (String
                                                          ((Ascii (true,
                                                          true, false, false,
                                                          true, true, true,
                                                          false)), (String
                                                          ((Ascii (true,
                                                          false, false, true,
                                                          false, true, true,
                                                          false)), (String
                                                          ((Ascii (true,
                                                          true, true, true,
                                                          false, true, true,
                                                          false)), (String
                                                          ((Ascii (false,
                                                          true, true, true,
                                                          false, true, true,
                                                          false)),
                                                          EmptyString)))))))))))))))))))) :: [])
                                                     then Some (Computed
                                                            (fval e))
                                                     else None
                                                   | _ :: _ -> None))
                                          else if sq (String ((Ascii (true,
                                                    true, false, false, true,
                                                    false, true, false)),
                                                    (String ((Ascii (false,
                                                    false, false, false,
                                                    true, true, true,
                                                    false)), (String ((Ascii
                                                    (false, true, false,
                                                    false, true, true, true,
                                                    false)), (String ((Ascii
                                                    (true, false, true,
                                                    false, false, true, true,
                                                    false)), (String ((Ascii
                                                    (true, false, false,
                                                    false, false, true, true,
                                                    false)), (String ((Ascii
                                                    (false, false, true,
                                                    false, false, true, true,
                                                    false)), (String ((Ascii
                                                    (true, false, true,
                                                    false, false, false,
                                                    true, false)), (String
                                                    ((Ascii (false, false,
                                                    true, true, false, true,
                                                    true, false)), (String
                                                    ((Ascii (true, false,
                                                    true, false, false, true,
                                                    true, false)), (String
                                                    ((Ascii (true, false,
                                                    true, true, false, true,
                                                    true, false)), (String
                                                    ((Ascii (true, false,
                                                    true, false, false, true,
                                                    true, false)), (String
                                                    ((Ascii (false, true,
                                                    true, true, false, true,
                                                    true, false)), (String
                                                    ((Ascii (false, false,
                                                    true, false, true, true,
                                                    true, false)),
                                                    EmptyString))))))))))))))))))))))))))
                                                    ty
                                               then (match r with
                                                     | [] -> None
                                                     | s :: l ->
                                                       (match l with
                                                        | [] -> None
                                                        | a :: l0 ->
                                                          (match l0 with
                                                           | [] ->
                                                             if keys_ok r
                                                                  ((String
                                                                  ((Ascii
                                                                  (true,
                                                                  true,
                                                                  false,
                                                                  false,
                                                                  true, true,
                                                                  true,
                                                                  false)),
                                                                  (String
                                                                  ((Ascii
                                                                  (false,
                                                                  false,
                                                                  false,
                                                                  false,
                                                                  true, true,
                                                                  true,
                                                                  false)),
                                                                  (String
                                                                  ((Ascii
                                                                  (false,
                                                                  true,
                                                                  false,
                                                                  false,
                                                                  true, true,
                                                                  true,
                                                                  false)),
                                                                  (String
                                                                  ((Ascii
                                                                  (true,
                                                                  false,
                                                                  true,
                                                                  false,
                                                                  false,
                                                                  true, true,
                                                                  false)),
                                                                  (String
                                                                  ((Ascii
                                                                  (true,
                                                                  false,
                                                                  false,
                                                                  false,
                                                                  false,
                                                                  true, true,
                                                                  false)),
                                                                  (String
                                                                  ((Ascii
                                                                  (false,
                                                                  false,
                                                                  true,
                                                                  false,
                                                                  false,
                                                                  true, true,
                                                                  false)),
                                                                  EmptyString)))))))))))) :: ((String
                                                                  ((Ascii
                                                                  (true,
                                                                  false,
                                                                  false,
                                                                  false,
                                                                  false,
                                                                  true, true,
                                                                  false)),
                                                                  (String
                                                                  ((Ascii
                                                                  (false,
                                                                  true,
                                                                  false,
                                                                  false,
                                                                  true, true,
                                                                  true,
                                                                  false)),
                                                                  (String
                                                                  ((Ascii
                                                                  (true,
                                                                  true, true,
                                                                  false,
                                                                  false,
                                                                  true, true,
                                                                  false)),
                                                                  (String
                                                                  ((Ascii
                                                                  (true,
                                                                  false,
                                                                  true,
                                                                  false,
                                                                  true, true,
                                                                  true,
                                                                  false)),
                                                                  (String
                                                                  ((Ascii
                                                                  (true,
                                                                  false,
                                                                  true, true,
                                                                  false,
                                                                  true, true,
                                                                  false)),
                                                                  (String
                                                                  ((Ascii
                                                                  (true,
                                                                  false,
                                                                  true,
                                                                  false,
                                                                  false,
                                                                  true, true,
                                                                  false)),
                                                                  (String
                                                                  ((Ascii
                                                                  (false,
                                                                  true, true,
                                                                  true,
                                                                  false,
                                                                  true, true,
                                                                  false)),
                                                                  (String
                                                                  ((Ascii
                                                                  (false,
                                                                  false,
                                                                  true,
                                                                  false,
                                                                  true, true,
                                                                  true,
                                                                  false)),
                                                                  (String
                                                                  ((Ascii
                                                                  (true,
                                                                  true,
                                                                  false,
                                                                  false,
                                                                  true, true,
                                                                  true,
                                                                  false)),
                                                                  EmptyString)))))))))))))))))) :: []))
                                                             then (match 
                                                                   fval s with
                                                                   | NScalar j ->
                                                                    (match j with
                                                                    | JBool b ->
                                                                    if b
                                                                    then 
                                                                    Some
                                                                    (Spread
                                                                    (fval a))
                                                                    else None
                                                                    | _ ->
                                                                    None)
                                                                   | _ -> None)
                                                             else None
                                                           | _ :: _ -> None)))
                                               else if sq (String ((Ascii
                                                         (true, true, false,
                                                         false, false, false,
                                                         true, false)),
                                                         (String ((Ascii
                                                         (true, false, false,
                                                         false, false, true,
                                                         true, false)),
                                                         (String ((Ascii
                                                         (false, false, true,
                                                         true, false, true,
                                                         true, false)),
                                                         (String ((Ascii
                                                         (false, false, true,
                                                         true, false, true,
                                                         true, false)),
                                                         (String ((Ascii
                                                         (true, false, true,
                                                         false, false, false,
                                                         true, false)),
                                                         (String ((Ascii
                                                         (false, false,
                                                         false, true, true,
                                                         true, true, false)),
                                                         (String ((Ascii
                                                         (false, false,
                                                         false, false, true,
                                                         true, true, false)),
                                                         (String ((Ascii
                                                         (false, true, false,
                                                         false, true, true,
                                                         true, false)),
                                                         (String ((Ascii
                                                         (true, false, true,
                                                         false, false, true,
                                                         true, false)),
                                                         (String ((Ascii
                                                         (true, true, false,
                                                         false, true, true,
                                                         true, false)),
                                                         (String ((Ascii
                                                         (true, true, false,
                                                         false, true, true,
                                                         true, false)),
                                                         (String ((Ascii
                                                         (true, false, false,
                                                         true, false, true,
                                                         true, false)),
                                                         (String ((Ascii
                                                         (true, true, true,
                                                         true, false, true,
                                                         true, false)),
                                                         (String ((Ascii
                                                         (false, true, true,
                                                         true, false, true,
                                                         true, false)),
                                                         EmptyString))))))))))))))))))))))))))))
                                                         ty
                                                    then (match r with
                                                          | [] -> None
                                                          | s :: l ->
                                                            (match l with
                                                             | [] -> None
                                                             | c :: l0 ->
                                                               (match l0 with
                                                                | [] -> None
                                                                | f :: l1 ->
                                                                  (match l1 with
                                                                   | [] ->
                                                                    None
                                                                   | a :: l2 ->
                                                                    (match l2 with
                                                                    | [] ->
                                                                    None
                                                                    | t :: l3 ->
                                                                    (match l3 with
                                                                    | [] ->
                                                                    if 
                                                                    keys_ok r
                                                                    ((String
                                                                    ((Ascii
                                                                    (true,
                                                                    true,
                                                                    false,
                                                                    false,
                                                                    true,
                                                                    true,
                                                                    true,
                                                                    false)),
                                                                    (String
                                                                    ((Ascii
                                                                    (true,
                                                                    false,
                                                                    false,
                                                                    true,
                                                                    true,
                                                                    true,
                                                                    true,
                                                                    false)),
                                                                    (String
                                                                    ((Ascii
                                                                    (false,
                                                                    true,
                                                                    true,
                                                                    true,
                                                                    false,
                                                                    true,
                                                                    true,
                                                                    false)),
                                                                    EmptyString)))))) :: ((String
                                                                    ((Ascii
                                                                    (true,
                                                                    true,
                                                                    false,
                                                                    false,
                                                                    false,
                                                                    true,
                                                                    true,
                                                                    false)),
                                                                    (String
                                                                    ((Ascii
                                                                    (false,
                                                                    false,
                                                                    true,
                                                                    false,
                                                                    true,
                                                                    true,
                                                                    true,
                                                                    false)),
                                                                    (String
                                                                    ((Ascii
                                                                    (false,
                                                                    false,
                                                                    false,
                                                                    true,
                                                                    true,
                                                                    true,
                                                                    true,
                                                                    false)),
                                                                    (String
                                                                    ((Ascii
                                                                    (false,
                                                                    false,
                                                                    true,
                                                                    false,
                                                                    true,
                                                                    true,
                                                                    true,
                                                                    false)),
                                                                    EmptyString)))))))) :: ((String
                                                                    ((Ascii
                                                                    (true,
                                                                    true,
                                                                    false,
                                                                    false,
                                                                    false,
                                                                    true,
                                                                    true,
                                                                    false)),
                                                                    (String
                                                                    ((Ascii
                                                                    (true,
                                                                    false,
                                                                    false,
                                                                    false,
                                                                    false,
                                                                    true,
                                                                    true,
                                                                    false)),
                                                                    (String
                                                                    ((Ascii
                                                                    (false,
                                                                    false,
                                                                    true,
                                                                    true,
                                                                    false,
                                                                    true,
                                                                    true,
                                                                    false)),
                                                                    (String
                                                                    ((Ascii
                                                                    (false,
                                                                    false,
                                                                    true,
                                                                    true,
                                                                    false,
                                                                    true,
                                                                    true,
                                                                    false)),
                                                                    (String
                                                                    ((Ascii
                                                                    (true,
                                                                    false,
                                                                    true,
                                                                    false,
                                                                    false,
                                                                    true,
                                                                    true,
                                                                    false)),
                                                                    (String
                                                                    ((Ascii
                                                                    (true,
                                                                    false,
                                                                    true,
                                                                    false,
                                                                    false,
                                                                    true,
                                                                    true,
                                                                    false)),
                                                                    EmptyString)))))))))))) :: ((String
                                                                    ((Ascii
                                                                    (true,
                                                                    false,
                                                                    false,
                                                                    false,
                                                                    false,
                                                                    true,
                                                                    true,
                                                                    false)),
                                                                    (String
                                                                    ((Ascii
                                                                    (false,
                                                                    true,
                                                                    false,
                                                                    false,
                                                                    true,
                                                                    true,
                                                                    true,
                                                                    false)),
                                                                    (String
                                                                    ((Ascii
                                                                    (true,
                                                                    true,
                                                                    true,
                                                                    false,
                                                                    false,
                                                                    true,
                                                                    true,
                                                                    false)),
                                                                    (String
                                                                    ((Ascii
                                                                    (true,
                                                                    false,
                                                                    true,
                                                                    false,
                                                                    true,
                                                                    true,
                                                                    true,
                                                                    false)),
                                                                    (String
                                                                    ((Ascii
                                                                    (true,
                                                                    false,
                                                                    true,
                                                                    true,
                                                                    false,
                                                                    true,
                                                                    true,
                                                                    false)),
                                                                    (String
                                                                    ((Ascii
                                                                    (true,
                                                                    false,
                                                                    true,
                                                                    false,
                                                                    false,
                                                                    true,
                                                                    true,
                                                                    false)),
                                                                    (String
                                                                    ((Ascii
                                                                    (false,
                                                                    true,
                                                                    true,
                                                                    true,
                                                                    false,
                                                                    true,
                                                                    true,
                                                                    false)),
                                                                    (String
                                                                    ((Ascii
                                                                    (false,
                                                                    false,
                                                                    true,
                                                                    false,
                                                                    true,
                                                                    true,
                                                                    true,
                                                                    false)),
                                                                    (String
                                                                    ((Ascii
                                                                    (true,
                                                                    true,
                                                                    false,
                                                                    false,
                                                                    true,
                                                                    true,
                                                                    true,
                                                                    false)),
                                                                    EmptyString)))))))))))))))))) :: ((String
                                                                    ((Ascii
                                                                    (false,
                                                                    false,
                                                                    true,
                                                                    false,
                                                                    true,
                                                                    true,
                                                                    true,
                                                                    false)),
                                                                    (String
                                                                    ((Ascii
                                                                    (true,
                                                                    false,
                                                                    false,
                                                                    true,
                                                                    true,
                                                                    true,
                                                                    true,
                                                                    false)),
                                                                    (String
                                                                    ((Ascii
                                                                    (false,
                                                                    false,
                                                                    false,
                                                                    false,
                                                                    true,
                                                                    true,
                                                                    true,
                                                                    false)),
                                                                    (String
                                                                    ((Ascii
                                                                    (true,
                                                                    false,
                                                                    true,
                                                                    false,
                                                                    false,
                                                                    true,
                                                                    true,
                                                                    false)),
                                                                    (String
                                                                    ((Ascii
                                                                    (true,
                                                                    false,
                                                                    false,
                                                                    false,
                                                                    false,
                                                                    false,
                                                                    true,
                                                                    false)),
                                                                    (String
                                                                    ((Ascii
                                                                    (false,
                                                                    true,
                                                                    false,
                                                                    false,
                                                                    true,
                                                                    true,
                                                                    true,
                                                                    false)),
                                                                    (String
                                                                    ((Ascii
                                                                    (true,
                                                                    true,
                                                                    true,
                                                                    false,
                                                                    false,
                                                                    true,
                                                                    true,
                                                                    false)),
                                                                    (String
                                                                    ((Ascii
                                                                    (true,
                                                                    false,
                                                                    true,
                                                                    false,
                                                                    true,
                                                                    true,
                                                                    true,
                                                                    false)),
                                                                    (String
                                                                    ((Ascii
                                                                    (true,
                                                                    false,
                                                                    true,
                                                                    true,
                                                                    false,
                                                                    true,
                                                                    true,
                                                                    false)),
                                                                    (String
                                                                    ((Ascii
                                                                    (true,
                                                                    false,
                                                                    true,
                                                                    false,
                                                                    false,
                                                                    true,
                                                                    true,
                                                                    false)),
                                                                    (String
                                                                    ((Ascii
                                                                    (false,
                                                                    true,
                                                                    true,
                                                                    true,
                                                                    false,
                                                                    true,
                                                                    true,
                                                                    false)),
                                                                    (String
                                                                    ((Ascii
                                                                    (false,
                                                                    false,
                                                                    true,
                                                                    false,
                                                                    true,
                                                                    true,
                                                                    true,
                                                                    false)),
                                                                    (String
                                                                    ((Ascii
                                                                    (true,
                                                                    true,
                                                                    false,
                                                                    false,
                                                                    true,
                                                                    true,
                                                                    true,
                                                                    false)),
                                                                    EmptyString)))))))))))))))))))))))))) :: [])))))
                                                                    then 
                                                                    (match 
                                                                    as_bool
                                                                    (fval s) with
                                                                    | Some s' ->
                                                                    (match 
                                                                    as_N
                                                                    (fval c) with
                                                                    | Some c' ->
                                                                    (match 
                                                                    as_list
                                                                    (fval a) with
                                                                    | Some a' ->
                                                                    Some
                                                                    (Call
                                                                    (s', c',
                                                                    (fval f),
                                                                    a',
                                                                    (fval t)))
                                                                    | None ->
                                                                    None)
                                                                    | None ->
                                                                    None)
                                                                    | None ->
                                                                    None)
                                                                    else None
                                                                    | _ :: _ ->
                                                                    None))))))
                                                    else if sq (String
                                                              ((Ascii (true,
                                                              false, false,
                                                              false, false,
                                                              false, true,
                                                              false)),
                                                              (String ((Ascii
                                                              (false, true,
                                                              false, false,
                                                              true, true,
                                                              true, false)),
                                                              (String ((Ascii
                                                              (false, true,
                                                              false, false,
                                                              true, true,
                                                              true, false)),
                                                              (String ((Ascii
                                                              (true, true,
                                                              true, true,
                                                              false, true,
                                                              true, false)),
                                                              (String ((Ascii
                                                              (true, true,
                                                              true, false,
                                                              true, true,
                                                              true, false)),
                                                              (String ((Ascii
                                                              (false, true,
                                                              true, false,
                                                              false, false,
                                                              true, false)),
                                                              (String ((Ascii
                                                              (true, false,
                                                              true, false,
                                                              true, true,
                                                              true, false)),
                                                              (String ((Ascii
                                                              (false, true,
                                                              true, true,
                                                              false, true,
                                                              true, false)),
                                                              (String ((Ascii
                                                              (true, true,
                                                              false, false,
                                                              false, true,
                                                              true, false)),
                                                              (String ((Ascii
                                                              (false, false,
                                                              true, false,
                                                              true, true,
                                                              true, false)),
                                                              (String ((Ascii
                                                              (true, false,
                                                              false, true,
                                                              false, true,
                                                              true, false)),
                                                              (String ((Ascii
                                                              (true, true,
                                                              true, true,
                                                              false, true,
                                                              true, false)),
                                                              (String ((Ascii
                                                              (false, true,
                                                              true, true,
                                                              false, true,
                                                              true, false)),
                                                              (String ((Ascii
                                                              (true, false,
                                                              true, false,
                                                              false, false,
                                                              true, false)),
                                                              (String ((Ascii
                                                              (false, false,
                                                              false, true,
                                                              true, true,
                                                              true, false)),
                                                              (String ((Ascii
                                                              (false, false,
                                                              false, false,
                                                              true, true,
                                                              true, false)),
                                                              (String ((Ascii
                                                              (false, true,
                                                              false, false,
                                                              true, true,
                                                              true, false)),
                                                              (String ((Ascii
                                                              (true, false,
                                                              true, false,
                                                              false, true,
                                                              true, false)),
                                                              (String ((Ascii
                                                              (true, true,
                                                              false, false,
                                                              true, true,
                                                              true, false)),
                                                              (String ((Ascii
                                                              (true, true,
                                                              false, false,
                                                              true, true,
                                                              true, false)),
                                                              (String ((Ascii
                                                              (true, false,
                                                              false, true,
                                                              false, true,
                                                              true, false)),
                                                              (String ((Ascii
                                                              (true, true,
                                                              true, true,
                                                              false, true,
                                                              true, false)),
                                                              (String ((Ascii
                                                              (false, true,
                                                              true, true,
                                                              false, true,
                                                              true, false)),
                                                              EmptyString))))))))))))))))))))))))))))))))))))))))))))))
                                                              ty
                                                         then (match r with
                                                               | [] -> None
                                                               | c :: l ->
                                                                 (match l with
                                                                  | [] -> None
                                                                  | p :: l0 ->
                                                                    (match l0 with
                                                                    | [] ->
                                                                    None
                                                                    | b :: l1 ->
                                                                    (match l1 with
                                                                    | [] ->
                                                                    None
                                                                    | a :: l2 ->
                                                                    (match l2 with
                                                                    | [] ->
                                                                    None
                                                                    | g :: l3 ->
                                                                    (match l3 with
                                                                    | [] ->
                                                                    None
                                                                    | tp :: l4 ->
                                                                    (match l4 with
                                                                    | [] ->
                                                                    None
                                                                    | rt :: l5 ->
                                                                    (match l5 with
                                                                    | [] ->
                                                                    if 
                                                                    keys_ok r
                                                                    ((String
                                                                    ((Ascii
                                                                    (true,
                                                                    true,
                                                                    false,
                                                                    false,
                                                                    false,
                                                                    true,
                                                                    true,
                                                                    false)),
                                                                    (String
                                                                    ((Ascii
                                                                    (false,
                                                                    false,
                                                                    true,
                                                                    false,
                                                                    true,
                                                                    true,
                                                                    true,
                                                                    false)),
                                                                    (String
                                                                    ((Ascii
                                                                    (false,
                                                                    false,
                                                                    false,
                                                                    true,
                                                                    true,
                                                                    true,
                                                                    true,
                                                                    false)),
                                                                    (String
                                                                    ((Ascii
                                                                    (false,
                                                                    false,
                                                                    true,
                                                                    false,
                                                                    true,
                                                                    true,
                                                                    true,
                                                                    false)),
                                                                    EmptyString)))))))) :: ((String
                                                                    ((Ascii
                                                                    (false,
                                                                    false,
                                                                    false,
                                                                    false,
                                                                    true,
                                                                    true,
                                                                    true,
                                                                    false)),
                                                                    (String
                                                                    ((Ascii
                                                                    (true,
                                                                    false,
                                                                    false,
                                                                    false,
                                                                    false,
                                                                    true,
                                                                    true,
                                                                    false)),
                                                                    (String
                                                                    ((Ascii
                                                                    (false,
                                                                    true,
                                                                    false,
                                                                    false,
                                                                    true,
                                                                    true,
                                                                    true,
                                                                    false)),
                                                                    (String
                                                                    ((Ascii
                                                                    (true,
                                                                    false,
                                                                    false,
                                                                    false,
                                                                    false,
                                                                    true,
                                                                    true,
                                                                    false)),
                                                                    (String
                                                                    ((Ascii
                                                                    (true,
                                                                    false,
                                                                    true,
                                                                    true,
                                                                    false,
                                                                    true,
                                                                    true,
                                                                    false)),
                                                                    (String
                                                                    ((Ascii
                                                                    (true,
                                                                    true,
                                                                    false,
                                                                    false,
                                                                    true,
                                                                    true,
                                                                    true,
                                                                    false)),
                                                                    EmptyString)))))))))))) :: ((String
                                                                    ((Ascii
                                                                    (false,
                                                                    true,
                                                                    false,
                                                                    false,
                                                                    false,
                                                                    true,
                                                                    true,
                                                                    false)),
                                                                    (String
                                                                    ((Ascii
                                                                    (true,
                                                                    true,
                                                                    true,
                                                                    true,
                                                                    false,
                                                                    true,
                                                                    true,
                                                                    false)),
                                                                    (String
                                                                    ((Ascii
                                                                    (false,
                                                                    false,
                                                                    true,
                                                                    false,
                                                                    false,
                                                                    true,
                                                                    true,
                                                                    false)),
                                                                    (String
                                                                    ((Ascii
                                                                    (true,
                                                                    false,
                                                                    false,
                                                                    true,
                                                                    true,
                                                                    true,
                                                                    true,
                                                                    false)),
                                                                    EmptyString)))))))) :: ((String
                                                                    ((Ascii
                                                                    (true,
                                                                    false,
                                                                    false,
                                                                    false,
                                                                    false,
                                                                    true,
                                                                    true,
                                                                    false)),
                                                                    (String
                                                                    ((Ascii
                                                                    (true,
                                                                    true,
                                                                    false,
                                                                    false,
                                                                    true,
                                                                    true,
                                                                    true,
                                                                    false)),
                                                                    (String
                                                                    ((Ascii
                                                                    (true,
                                                                    false,
                                                                    false,
                                                                    true,
                                                                    true,
                                                                    true,
                                                                    true,
                                                                    false)),
                                                                    (String
                                                                    ((Ascii
                                                                    (false,
                                                                    true,
                                                                    true,
                                                                    true,
                                                                    false,
                                                                    true,
                                                                    true,
                                                                    false)),
                                                                    (String
                                                                    ((Ascii
                                                                    (true,
                                                                    true,
                                                                    false,
                                                                    false,
                                                                    false,
                                                                    true,
                                                                    true,
                                                                    false)),
                                                                    EmptyString)))))))))) :: ((String
                                                                    ((Ascii
                                                                    (true,
                                                                    true,
                                                                    true,
                                                                    false,
                                                                    false,
                                                                    true,
                                                                    true,
                                                                    false)),
                                                                    (String
                                                                    ((Ascii
                                                                    (true,
                                                                    false,
                                                                    true,
                                                                    false,
                                                                    false,
                                                                    true,
                                                                    true,
                                                                    false)),
                                                                    (String
                                                                    ((Ascii
                                                                    (false,
                                                                    true,
                                                                    true,
                                                                    true,
                                                                    false,
                                                                    true,
                                                                    true,
                                                                    false)),
                                                                    (String
                                                                    ((Ascii
                                                                    (true,
                                                                    false,
                                                                    true,
                                                                    false,
                                                                    false,
                                                                    true,
                                                                    true,
                                                                    false)),
                                                                    (String
                                                                    ((Ascii
                                                                    (false,
                                                                    true,
                                                                    false,
                                                                    false,
                                                                    true,
                                                                    true,
                                                                    true,
                                                                    false)),
                                                                    (String
                                                                    ((Ascii
                                                                    (true,
                                                                    false,
                                                                    false,
                                                                    false,
                                                                    false,
                                                                    true,
                                                                    true,
                                                                    false)),
                                                                    (String
                                                                    ((Ascii
                                                                    (false,
                                                                    false,
                                                                    true,
                                                                    false,
                                                                    true,
                                                                    true,
                                                                    true,
                                                                    false)),
                                                                    (String
                                                                    ((Ascii
                                                                    (true,
                                                                    true,
                                                                    true,
                                                                    true,
                                                                    false,
                                                                    true,
                                                                    true,
                                                                    false)),
                                                                    (String
                                                                    ((Ascii
                                                                    (false,
                                                                    true,
                                                                    false,
                                                                    false,
                                                                    true,
                                                                    true,
                                                                    true,
                                                                    false)),
                                                                    EmptyString)))))))))))))))))) :: ((String
                                                                    ((Ascii
                                                                    (false,
                                                                    false,
                                                                    true,
                                                                    false,
                                                                    true,
                                                                    true,
                                                                    true,
                                                                    false)),
                                                                    (String
                                                                    ((Ascii
                                                                    (true,
                                                                    false,
                                                                    false,
                                                                    true,
                                                                    true,
                                                                    true,
                                                                    true,
                                                                    false)),
                                                                    (String
                                                                    ((Ascii
                                                                    (false,
                                                                    false,
                                                                    false,
                                                                    false,
                                                                    true,
                                                                    true,
                                                                    true,
                                                                    false)),
                                                                    (String
                                                                    ((Ascii
                                                                    (true,
                                                                    false,
                                                                    true,
                                                                    false,
                                                                    false,
                                                                    true,
                                                                    true,
                                                                    false)),
                                                                    (String
                                                                    ((Ascii
                                                                    (false,
                                                                    false,
                                                                    false,
                                                                    false,
                                                                    true,
                                                                    false,
                                                                    true,
                                                                    false)),
                                                                    (String
                                                                    ((Ascii
                                                                    (true,
                                                                    false,
                                                                    false,
                                                                    false,
                                                                    false,
                                                                    true,
                                                                    true,
                                                                    false)),
                                                                    (String
                                                                    ((Ascii
                                                                    (false,
                                                                    true,
                                                                    false,
                                                                    false,
                                                                    true,
                                                                    true,
                                                                    true,
                                                                    false)),
                                                                    (String
                                                                    ((Ascii
                                                                    (true,
                                                                    false,
                                                                    false,
                                                                    false,
                                                                    false,
                                                                    true,
                                                                    true,
                                                                    false)),
                                                                    (String
                                                                    ((Ascii
                                                                    (true,
                                                                    false,
                                                                    true,
                                                                    true,
                                                                    false,
                                                                    true,
                                                                    true,
                                                                    false)),
                                                                    (String
                                                                    ((Ascii
                                                                    (true,
                                                                    false,
                                                                    true,
                                                                    false,
                                                                    false,
                                                                    true,
                                                                    true,
                                                                    false)),
                                                                    (String
                                                                    ((Ascii
                                                                    (false,
                                                                    false,
                                                                    true,
                                                                    false,
                                                                    true,
                                                                    true,
                                                                    true,
                                                                    false)),
                                                                    (String
                                                                    ((Ascii
                                                                    (true,
                                                                    false,
                                                                    true,
                                                                    false,
                                                                    false,
                                                                    true,
                                                                    true,
                                                                    false)),
                                                                    (String
                                                                    ((Ascii
                                                                    (false,
                                                                    true,
                                                                    false,
                                                                    false,
                                                                    true,
                                                                    true,
                                                                    true,
                                                                    false)),
                                                                    (String
                                                                    ((Ascii
                                                                    (true,
                                                                    true,
                                                                    false,
                                                                    false,
                                                                    true,
                                                                    true,
                                                                    true,
                                                                    false)),
                                                                    EmptyString)))))))))))))))))))))))))))) :: ((String
                                                                    ((Ascii
                                                                    (false,
                                                                    true,
                                                                    false,
                                                                    false,
                                                                    true,
                                                                    true,
                                                                    true,
                                                                    false)),
                                                                    (String
                                                                    ((Ascii
                                                                    (true,
                                                                    false,
                                                                    true,
                                                                    false,
                                                                    false,
                                                                    true,
                                                                    true,
                                                                    false)),
                                                                    (String
                                                                    ((Ascii
                                                                    (false,
                                                                    false,
                                                                    true,
                                                                    false,
                                                                    true,
                                                                    true,
                                                                    true,
                                                                    false)),
                                                                    (String
                                                                    ((Ascii
                                                                    (true,
                                                                    false,
                                                                    true,
                                                                    false,
                                                                    true,
                                                                    true,
                                                                    true,
                                                                    false)),
                                                                    (String
                                                                    ((Ascii
                                                                    (false,
                                                                    true,
                                                                    false,
                                                                    false,
                                                                    true,
                                                                    true,
                                                                    true,
                                                                    false)),
                                                                    (String
                                                                    ((Ascii
                                                                    (false,
                                                                    true,
                                                                    true,
                                                                    true,
                                                                    false,
                                                                    true,
                                                                    true,
                                                                    false)),
                                                                    (String
                                                                    ((Ascii
                                                                    (false,
                                                                    false,
                                                                    true,
                                                                    false,
                                                                    true,
                                                                    false,
                                                                    true,
                                                                    false)),
                                                                    (String
                                                                    ((Ascii
                                                                    (true,
                                                                    false,
                                                                    false,
                                                                    true,
                                                                    true,
                                                                    true,
                                                                    true,
                                                                    false)),
                                                                    (String
                                                                    ((Ascii
                                                                    (false,
                                                                    false,
                                                                    false,
                                                                    false,
                                                                    true,
                                                                    true,
                                                                    true,
                                                                    false)),
                                                                    (String
                                                                    ((Ascii
                                                                    (true,
                                                                    false,
                                                                    true,
                                                                    false,
                                                                    false,
                                                                    true,
                                                                    true,
                                                                    false)),
                                                                    EmptyString)))))))))))))))))))) :: [])))))))
                                                                    then 
                                                                    (match 
                                                                    as_N
                                                                    (fval c) with
                                                                    | Some c' ->
                                                                    (match 
                                                                    as_list
                                                                    (fval p) with
                                                                    | Some p' ->
                                                                    (match 
                                                                    as_bool
                                                                    (fval a) with
                                                                    | Some a' ->
                                                                    (match 
                                                                    as_bool
                                                                    (fval g) with
                                                                    | Some g' ->
                                                                    Some
                                                                    (Arrow
                                                                    (c', p',
                                                                    (fval b),
                                                                    a', g',
                                                                    (fval tp),
                                                                    (fval rt)))
                                                                    | None ->
                                                                    None)
                                                                    | None ->
                                                                    None)
                                                                    | None ->
                                                                    None)
                                                                    | None ->
                                                                    None)
                                                                    else None
                                                                    | _ :: _ ->
                                                                    None))))))))
                                                         else if sq (String
                                                                   ((Ascii
                                                                   (true,
                                                                   false,
                                                                   false,
                                                                   false,
                                                                   false,
                                                                   false,
                                                                   true,
                                                                   false)),
                                                                   (String
                                                                   ((Ascii
                                                                   (true,
                                                                   true,
                                                                   false,
                                                                   false,
                                                                   true,
                                                                   true,
                                                                   true,
                                                                   false)),
                                                                   (String
                                                                   ((Ascii
                                                                   (true,
                                                                   true,
                                                                   false,
                                                                   false,
                                                                   true,
                                                                   true,
                                                                   true,
                                                                   false)),
                                                                   (String
                                                                   ((Ascii
                                                                   (true,
                                                                   false,
                                                                   false,
                                                                   true,
                                                                   false,
                                                                   true,
                                                                   true,
                                                                   false)),
                                                                   (String
                                                                   ((Ascii
                                                                   (true,
                                                                   true,
                                                                   true,
                                                                   false,
                                                                   false,
                                                                   true,
                                                                   true,
                                                                   false)),
                                                                   (String
                                                                   ((Ascii
                                                                   (false,
                                                                   true,
                                                                   true,
                                                                   true,
                                                                   false,
                                                                   true,
                                                                   true,
                                                                   false)),
                                                                   (String
                                                                   ((Ascii
                                                                   (true,
                                                                   false,
                                                                   true,
                                                                   true,
                                                                   false,
                                                                   true,
                                                                   true,
                                                                   false)),
                                                                   (String
                                                                   ((Ascii
                                                                   (true,
                                                                   false,
                                                                   true,
                                                                   false,
                                                                   false,
                                                                   true,
                                                                   true,
                                                                   false)),
                                                                   (String
                                                                   ((Ascii
                                                                   (false,
                                                                   true,
                                                                   true,
                                                                   true,
                                                                   false,
                                                                   true,
                                                                   true,
                                                                   false)),
                                                                   (String
                                                                   ((Ascii
                                                                   (false,
                                                                   false,
                                                                   true,
                                                                   false,
                                                                   true,
                                                                   true,
                                                                   true,
                                                                   false)),
                                                                   (String
                                                                   ((Ascii
                                                                   (true,
                                                                   false,
                                                                   true,
                                                                   false,
                                                                   false,
                                                                   false,
                                                                   true,
                                                                   false)),
                                                                   (String
                                                                   ((Ascii
                                                                   (false,
                                                                   false,
                                                                   false,
                                                                   true,
                                                                   true,
                                                                   true,
                                                                   true,
                                                                   false)),
                                                                   (String
                                                                   ((Ascii
                                                                   (false,
                                                                   false,
                                                                   false,
                                                                   false,
                                                                   true,
                                                                   true,
                                                                   true,
                                                                   false)),
                                                                   (String
                                                                   ((Ascii
                                                                   (false,
                                                                   true,
                                                                   false,
                                                                   false,
                                                                   true,
                                                                   true,
                                                                   true,
                                                                   false)),
                                                                   (String
                                                                   ((Ascii
                                                                   (true,
                                                                   false,
                                                                   true,
                                                                   false,
                                                                   false,
                                                                   true,
                                                                   true,
                                                                   false)),
                                                                   (String
                                                                   ((Ascii
                                                                   (true,
                                                                   true,
                                                                   false,
                                                                   false,
                                                                   true,
                                                                   true,
                                                                   true,
                                                                   false)),
                                                                   (String
                                                                   ((Ascii
                                                                   (true,
                                                                   true,
                                                                   false,
                                                                   false,
                                                                   true,
                                                                   true,
                                                                   true,
                                                                   false)),
                                                                   (String
                                                                   ((Ascii
                                                                   (true,
                                                                   false,
                                                                   false,
                                                                   true,
                                                                   false,
                                                                   true,
                                                                   true,
                                                                   false)),
                                                                   (String
                                                                   ((Ascii
                                                                   (true,
                                                                   true,
                                                                   true,
                                                                   true,
                                                                   false,
                                                                   true,
                                                                   true,
                                                                   false)),
                                                                   (String
                                                                   ((Ascii
                                                                   (false,
                                                                   true,
                                                                   true,
                                                                   true,
                                                                   false,
                                                                   true,
                                                                   true,
                                                                   false)),
                                                                   EmptyString))))))))))))))))))))))))))))))))))))))))
                                                                   ty
                                                              then (match r with
                                                                    | [] ->
                                                                    None
                                                                    | o :: l0 ->
                                                                    (match l0 with
                                                                    | [] ->
                                                                    None
                                                                    | l :: l1 ->
                                                                    (match l1 with
                                                                    | [] ->
                                                                    None
                                                                    | v :: l2 ->
                                                                    (match l2 with
                                                                    | [] ->
                                                                    if 
                                                                    keys_ok r
                                                                    ((String
                                                                    ((Ascii
                                                                    (true,
                                                                    true,
                                                                    true,
                                                                    true,
                                                                    false,
                                                                    true,
                                                                    true,
                                                                    false)),
                                                                    (String
                                                                    ((Ascii
                                                                    (false,
                                                                    false,
                                                                    false,
                                                                    false,
                                                                    true,
                                                                    true,
                                                                    true,
                                                                    false)),
                                                                    (String
                                                                    ((Ascii
                                                                    (true,
                                                                    false,
                                                                    true,
                                                                    false,
                                                                    false,
                                                                    true,
                                                                    true,
                                                                    false)),
                                                                    (String
                                                                    ((Ascii
                                                                    (false,
                                                                    true,
                                                                    false,
                                                                    false,
                                                                    true,
                                                                    true,
                                                                    true,
                                                                    false)),
                                                                    (String
                                                                    ((Ascii
                                                                    (true,
                                                                    false,
                                                                    false,
                                                                    false,
                                                                    false,
                                                                    true,
                                                                    true,
                                                                    false)),
                                                                    (String
                                                                    ((Ascii
                                                                    (false,
                                                                    false,
                                                                    true,
                                                                    false,
                                                                    true,
                                                                    true,
                                                                    true,
                                                                    false)),
                                                                    (String
                                                                    ((Ascii
                                                                    (true,
                                                                    true,
                                                                    true,
                                                                    true,
                                                                    false,
                                                                    true,
                                                                    true,
                                                                    false)),
                                                                    (String
                                                                    ((Ascii
                                                                    (false,
                                                                    true,
                                                                    false,
                                                                    false,
                                                                    true,
                                                                    true,
                                                                    true,
                                                                    false)),
                                                                    EmptyString)))))))))))))))) :: ((String
                                                                    ((Ascii
                                                                    (false,
                                                                    false,
                                                                    true,
                                                                    true,
                                                                    false,
                                                                    true,
                                                                    true,
                                                                    false)),
                                                                    (String
                                                                    ((Ascii
                                                                    (true,
                                                                    false,
                                                                    true,
                                                                    false,
                                                                    false,
                                                                    true,
                                                                    true,
                                                                    false)),
                                                                    (String
                                                                    ((Ascii
                                                                    (false,
                                                                    true,
                                                                    true,
                                                                    false,
                                                                    false,
                                                                    true,
                                                                    true,
                                                                    false)),
                                                                    (String
                                                                    ((Ascii
                                                                    (false,
                                                                    false,
                                                                    true,
                                                                    false,
                                                                    true,
                                                                    true,
                                                                    true,
                                                                    false)),
                                                                    EmptyString)))))))) :: ((String
                                                                    ((Ascii
                                                                    (false,
                                                                    true,
                                                                    false,
                                                                    false,
                                                                    true,
                                                                    true,
                                                                    true,
                                                                    false)),
                                                                    (String
                                                                    ((Ascii
                                                                    (true,
                                                                    false,
                                                                    false,
                                                                    true,
                                                                    false,
                                                                    true,
                                                                    true,
                                                                    false)),
                                                                    (String
                                                                    ((Ascii
                                                                    (true,
                                                                    true,
                                                                    true,
                                                                    false,
                                                                    false,
                                                                    true,
                                                                    true,
                                                                    false)),
                                                                    (String
                                                                    ((Ascii
                                                                    (false,
                                                                    false,
                                                                    false,
                                                                    true,
                                                                    false,
                                                                    true,
                                                                    true,
                                                                    false)),
                                                                    (String
                                                                    ((Ascii
                                                                    (false,
                                                                    false,
                                                                    true,
                                                                    false,
                                                                    true,
                                                                    true,
                                                                    true,
                                                                    false)),
                                                                    EmptyString)))))))))) :: [])))
                                                                    then 
                                                                    (match 
                                                                    as_str
                                                                    (fval o) with
                                                                    | Some o' ->
                                                                    Some
                                                                    (Assign
                                                                    (o',
                                                                    (fval l),
                                                                    (fval v)))
                                                                    | None ->
                                                                    None)
                                                                    else None
                                                                    | _ :: _ ->
                                                                    None))))
                                                              else if 
                                                                    sq
                                                                    (String
                                                                    ((Ascii
                                                                    (false,
                                                                    false,
                                                                    false,
                                                                    false,
                                                                    true,
                                                                    false,
                                                                    true,
                                                                    false)),
                                                                    (String
                                                                    ((Ascii
                                                                    (true,
                                                                    false,
                                                                    false,
                                                                    false,
                                                                    false,
                                                                    true,
                                                                    true,
                                                                    false)),
                                                                    (String
                                                                    ((Ascii
                                                                    (false,
                                                                    true,
                                                                    false,
                                                                    false,
                                                                    true,
                                                                    true,
                                                                    true,
                                                                    false)),
                                                                    (String
                                                                    ((Ascii
                                                                    (true,
                                                                    false,
                                                                    true,
                                                                    false,
                                                                    false,
                                                                    true,
                                                                    true,
                                                                    false)),
                                                                    (String
                                                                    ((Ascii
                                                                    (false,
                                                                    true,
                                                                    true,
                                                                    true,
                                                                    false,
                                                                    true,
                                                                    true,
                                                                    false)),
                                                                    (String
                                                                    ((Ascii
                                                                    (false,
                                                                    false,
                                                                    true,
                                                                    false,
                                                                    true,
                                                                    true,
                                                                    true,
                                                                    false)),
                                                                    (String
                                                                    ((Ascii
                                                                    (false,
                                                                    false,
                                                                    false,
                                                                    true,
                                                                    false,
                                                                    true,
                                                                    true,
                                                                    false)),
                                                                    (String
                                                                    ((Ascii
                                                                    (true,
                                                                    false,
                                                                    true,
                                                                    false,
                                                                    false,
                                                                    true,
                                                                    true,
                                                                    false)),
                                                                    (String
                                                                    ((Ascii
                                                                    (true,
                                                                    true,
                                                                    false,
                                                                    false,
                                                                    true,
                                                                    true,
                                                                    true,
                                                                    false)),
                                                                    (String
                                                                    ((Ascii
                                                                    (true,
                                                                    false,
                                                                    false,
                                                                    true,
                                                                    false,
                                                                    true,
                                                                    true,
                                                                    false)),
                                                                    (String
                                                                    ((Ascii
                                                                    (true,
                                                                    true,
                                                                    false,
                                                                    false,
                                                                    true,
                                                                    true,
                                                                    true,
                                                                    false)),
                                                                    (String
                                                                    ((Ascii
                                                                    (true,
                                                                    false,
                                                                    true,
                                                                    false,
                                                                    false,
                                                                    false,
                                                                    true,
                                                                    false)),
                                                                    (String
                                                                    ((Ascii
                                                                    (false,
                                                                    false,
                                                                    false,
                                                                    true,
                                                                    true,
                                                                    true,
                                                                    true,
                                                                    false)),
                                                                    (String
                                                                    ((Ascii
                                                                    (false,
                                                                    false,
                                                                    false,
                                                                    false,
                                                                    true,
                                                                    true,
                                                                    true,
                                                                    false)),
                                                                    (String
                                                                    ((Ascii
                                                                    (false,
                                                                    true,
                                                                    false,
                                                                    false,
                                                                    true,
                                                                    true,
                                                                    true,
                                                                    false)),
                                                                    (String
                                                                    ((Ascii
                                                                    (true,
                                                                    false,
                                                                    true,
                                                                    false,
                                                                    false,
                                                                    true,
                                                                    true,
                                                                    false)),
                                                                    (String
                                                                    ((Ascii
                                                                    (true,
                                                                    true,
                                                                    false,
                                                                    false,
                                                                    true,
                                                                    true,
                                                                    true,
                                                                    false)),
                                                                    (String
                                                                    ((Ascii
                                                                    (true,
                                                                    true,
                                                                    false,
                                                                    false,
                                                                    true,
                                                                    true,
                                                                    true,
                                                                    false)),
                                                                    (String
                                                                    ((Ascii
                                                                    (true,
                                                                    false,
                                                                    false,
                                                                    true,
                                                                    false,
                                                                    true,
                                                                    true,
                                                                    false)),
                                                                    (String
                                                                    ((Ascii
                                                                    (true,
                                                                    true,
                                                                    true,
                                                                    true,
                                                                    false,
                                                                    true,
                                                                    true,
                                                                    false)),
                                                                    (String
                                                                    ((Ascii
                                                                    (false,
                                                                    true,
                                                                    true,
                                                                    true,
                                                                    false,
                                                                    true,
                                                                    true,
                                                                    false)),
                                                                    EmptyString))))))))))))))))))))))))))))))))))))))))))
                                                                    ty
                                                                   then 
                                                                    (match r with
                                                                    | [] ->
                                                                    None
                                                                    | e :: l ->
                                                                    (match l with
                                                                    | [] ->
                                                                    if 
                                                                    keys_ok r
                                                                    ((String
                                                                    ((Ascii
                                                                    (true,
                                                                    false,
                                                                    true,
                                                                    false,
                                                                    false,
                                                                    true,
                                                                    true,
                                                                    false)),
                                                                    (String
                                                                    ((Ascii
                                                                    (false,
                                                                    false,
                                                                    false,
                                                                    true,
                                                                    true,
                                                                    true,
                                                                    true,
                                                                    false)),
                                                                    (String
                                                                    ((Ascii
                                                                    (false,
                                                                    false,
                                                                    false,
                                                                    false,
                                                                    true,
                                                                    true,
                                                                    true,
                                                                    false)),
                                                                    (String
                                                                    ((Ascii
                                                                    (false,
                                                                    true,
                                                                    false,
                                                                    false,
                                                                    true,
                                                                    true,
                                                                    true,
                                                                    false)),
                                                                    (String
                                                                    ((Ascii
                                                                    (true,
                                                                    false,
                                                                    true,
                                                                    false,
                                                                    false,
                                                                    true,
                                                                    true,
                                                                    false)),
                                                                    (String
                                                                    ((Ascii
                                                                    (true,
                                                                    true,
                                                                    false,
                                                                    false,
                                                                    true,
                                                                    true,
                                                                    true,
                                                                    false)),
                                                                    (String
                                                                    ((Ascii
                                                                    (true,
                                                                    true,
                                                                    false,
                                                                    false,
                                                                    true,
                                                                    true,
                                                                    true,
                                                                    false)),
                                                                    (String
                                                                    ((Ascii
                                                                    (true,
                                                                    false,
                                                                    false,
                                                                    true,
                                                                    false,
                                                                    true,
                                                                    true,
                                                                    false)),
                                                                    (String
                                                                    ((Ascii
                                                                    (true,
                                                                    true,
                                                                    true,
                                                                    true,
                                                                    false,
                                                                    true,
                                                                    true,
                                                                    false)),
                                                                    (String
                                                                    ((Ascii
                                                                    (false,
                                                                    true,
                                                                    true,
                                                                    true,
                                                                    false,
                                                                    true,
                                                                    true,
                                                                    false)),
                                                                    EmptyString)))))))))))))))))))) :: [])
                                                                    then 
                                                                    Some
                                                                    (Paren
                                                                    (fval e))
                                                                    else None
                                                                    | _ :: _ ->
                                                                    None))
                                                                   else 
                                                                    if 
                                                                    sq
                                                                    (String
                                                                    ((Ascii
                                                                    (true,
                                                                    true,
                                                                    false,
                                                                    false,
                                                                    false,
                                                                    false,
                                                                    true,
                                                                    false)),
                                                                    (String
                                                                    ((Ascii
                                                                    (true,
                                                                    true,
                                                                    true,
                                                                    true,
                                                                    false,
                                                                    true,
                                                                    true,
                                                                    false)),
                                                                    (String
                                                                    ((Ascii
                                                                    (false,
                                                                    true,
                                                                    true,
                                                                    true,
                                                                    false,
                                                                    true,
                                                                    true,
                                                                    false)),
                                                                    (String
                                                                    ((Ascii
                                                                    (false,
                                                                    false,
                                                                    true,
                                                                    false,
                                                                    false,
                                                                    true,
                                                                    true,
                                                                    false)),
                                                                    (String
                                                                    ((Ascii
                                                                    (true,
                                                                    false,
                                                                    false,
                                                                    true,
                                                                    false,
                                                                    true,
                                                                    true,
                                                                    false)),
                                                                    (String
                                                                    ((Ascii
                                                                    (false,
                                                                    false,
                                                                    true,
                                                                    false,
                                                                    true,
                                                                    true,
                                                                    true,
                                                                    false)),
                                                                    (String
                                                                    ((Ascii
                                                                    (true,
                                                                    false,
                                                                    false,
                                                                    true,
                                                                    false,
                                                                    true,
                                                                    true,
                                                                    false)),
                                                                    (String
                                                                    ((Ascii
                                                                    (true,
                                                                    true,
                                                                    true,
                                                                    true,
                                                                    false,
                                                                    true,
                                                                    true,
                                                                    false)),
                                                                    (String
                                                                    ((Ascii
                                                                    (false,
                                                                    true,
                                                                    true,
                                                                    true,
                                                                    false,
                                                                    true,
                                                                    true,
                                                                    false)),
                                                                    (String
                                                                    ((Ascii
                                                                    (true,
                                                                    false,
                                                                    false,
                                                                    false,
                                                                    false,
                                                                    true,
                                                                    true,
                                                                    false)),
                                                                    (String
                                                                    ((Ascii
                                                                    (false,
                                                                    false,
                                                                    true,
                                                                    true,
                                                                    false,
                                                                    true,
                                                                    true,
                                                                    false)),
                                                                    (String
                                                                    ((Ascii
                                                                    (true,
                                                                    false,
                                                                    true,
                                                                    false,
                                                                    false,
                                                                    false,
                                                                    true,
                                                                    false)),
                                                                    (String
                                                                    ((Ascii
                                                                    (false,
                                                                    false,
                                                                    false,
                                                                    true,
                                                                    true,
                                                                    true,
                                                                    true,
                                                                    false)),
                                                                    (String
                                                                    ((Ascii
                                                                    (false,
                                                                    false,
                                                                    false,
                                                                    false,
                                                                    true,
                                                                    true,
                                                                    true,
                                                                    false)),
                                                                    (String
                                                                    ((Ascii
                                                                    (false,
                                                                    true,
                                                                    false,
                                                                    false,
                                                                    true,
                                                                    true,
                                                                    true,
                                                                    false)),
                                                                    (String
                                                                    ((Ascii
                                                                    (true,
                                                                    false,
                                                                    true,
                                                                    false,
                                                                    false,
                                                                    true,
                                                                    true,
                                                                    false)),
                                                                    (String
                                                                    ((Ascii
                                                                    (true,
                                                                    true,
                                                                    false,
                                                                    false,
                                                                    true,
                                                                    true,
                                                                    true,
                                                                    false)),
                                                                    (String
                                                                    ((Ascii
                                                                    (true,
                                                                    true,
                                                                    false,
                                                                    false,
                                                                    true,
                                                                    true,
                                                                    true,
                                                                    false)),
                                                                    (String
                                                                    ((Ascii
                                                                    (true,
                                                                    false,
                                                                    false,
                                                                    true,
                                                                    false,
                                                                    true,
                                                                    true,
                                                                    false)),
                                                                    (String
                                                                    ((Ascii
                                                                    (true,
                                                                    true,
                                                                    true,
                                                                    true,
                                                                    false,
                                                                    true,
                                                                    true,
                                                                    false)),
                                                                    (String
                                                                    ((Ascii
                                                                    (false,
                                                                    true,
                                                                    true,
                                                                    true,
                                                                    false,
                                                                    true,
                                                                    true,
                                                                    false)),
                                                                    EmptyString))))))))))))))))))))))))))))))))))))))))))
                                                                    ty
                                                                    then 
                                                                    (match r with
                                                                    | [] ->
                                                                    None
                                                                    | t :: l ->
                                                                    (match l with
                                                                    | [] ->
                                                                    None
                                                                    | c :: l0 ->
                                                                    (match l0 with
                                                                    | [] ->
                                                                    None
                                                                    | a :: l1 ->
                                                                    (match l1 with
                                                                    | [] ->
                                                                    if 
                                                                    keys_ok r
                                                                    ((String
                                                                    ((Ascii
                                                                    (false,
                                                                    false,
                                                                    true,
                                                                    false,
                                                                    true,
                                                                    true,
                                                                    true,
                                                                    false)),
                                                                    (String
                                                                    ((Ascii
                                                                    (true,
                                                                    false,
                                                                    true,
                                                                    false,
                                                                    false,
                                                                    true,
                                                                    true,
                                                                    false)),
                                                                    (String
                                                                    ((Ascii
                                                                    (true,
                                                                    true,
                                                                    false,
                                                                    false,
                                                                    true,
                                                                    true,
                                                                    true,
                                                                    false)),
                                                                    (String
                                                                    ((Ascii
                                                                    (false,
                                                                    false,
                                                                    true,
                                                                    false,
                                                                    true,
                                                                    true,
                                                                    true,
                                                                    false)),
                                                                    EmptyString)))))))) :: ((String
                                                                    ((Ascii
                                                                    (true,
                                                                    true,
                                                                    false,
                                                                    false,
                                                                    false,
                                                                    true,
                                                                    true,
                                                                    false)),
                                                                    (String
                                                                    ((Ascii
                                                                    (true,
                                                                    true,
                                                                    true,
                                                                    true,
                                                                    false,
                                                                    true,
                                                                    true,
                                                                    false)),
                                                                    (String
                                                                    ((Ascii
                                                                    (false,
                                                                    true,
                                                                    true,
                                                                    true,
                                                                    false,
                                                                    true,
                                                                    true,
                                                                    false)),
                                                                    (String
                                                                    ((Ascii
                                                                    (true,
                                                                    true,
                                                                    false,
                                                                    false,
                                                                    true,
                                                                    true,
                                                                    true,
                                                                    false)),
                                                                    (String
                                                                    ((Ascii
                                                                    (true,
                                                                    false,
                                                                    true,
                                                                    false,
                                                                    false,
                                                                    true,
                                                                    true,
                                                                    false)),
                                                                    (String
                                                                    ((Ascii
                                                                    (true,
                                                                    false,
                                                                    false,
                                                                    false,
                                                                    true,
                                                                    true,
                                                                    true,
                                                                    false)),
                                                                    (String
                                                                    ((Ascii
                                                                    (true,
                                                                    false,
                                                                    true,
                                                                    false,
                                                                    true,
                                                                    true,
                                                                    true,
                                                                    false)),
                                                                    (String
                                                                    ((Ascii
                                                                    (true,
                                                                    false,
                                                                    true,
                                                                    false,
                                                                    false,
                                                                    true,
                                                                    true,
                                                                    false)),
                                                                    (String
                                                                    ((Ascii
                                                                    (false,
                                                                    true,
                                                                    true,
                                                                    true,
                                                                    false,
                                                                    true,
                                                                    true,
                                                                    false)),
                                                                    (String
                                                                    ((Ascii
                                                                    (false,
                                                                    false,
                                                                    true,
                                                                    false,
                                                                    true,
                                                                    true,
                                                                    true,
                                                                    false)),
                                                                    EmptyString)))))))))))))))))))) :: ((String
                                                                    ((Ascii
                                                                    (true,
                                                                    false,
                                                                    false,
                                                                    false,
                                                                    false,
                                                                    true,
                                                                    true,
                                                                    false)),
                                                                    (String
                                                                    ((Ascii
                                                                    (false,
                                                                    false,
                                                                    true,
                                                                    true,
                                                                    false,
                                                                    true,
                                                                    true,
                                                                    false)),
                                                                    (String
                                                                    ((Ascii
                                                                    (false,
                                                                    false,
                                                                    true,
                                                                    false,
                                                                    true,
                                                                    true,
                                                                    true,
                                                                    false)),
                                                                    (String
                                                                    ((Ascii
                                                                    (true,
                                                                    false,
                                                                    true,
                                                                    false,
                                                                    false,
                                                                    true,
                                                                    true,
                                                                    false)),
                                                                    (String
                                                                    ((Ascii
                                                                    (false,
                                                                    true,
                                                                    false,
                                                                    false,
                                                                    true,
                                                                    true,
                                                                    true,
                                                                    false)),
                                                                    (String
                                                                    ((Ascii
                                                                    (false,
                                                                    true,
                                                                    true,
                                                                    true,
                                                                    false,
                                                                    true,
                                                                    true,
                                                                    false)),
                                                                    (String
                                                                    ((Ascii
                                                                    (true,
                                                                    false,
                                                                    false,
                                                                    false,
                                                                    false,
                                                                    true,
                                                                    true,
                                                                    false)),
                                                                    (String
                                                                    ((Ascii
                                                                    (false,
                                                                    false,
                                                                    true,
                                                                    false,
                                                                    true,
                                                                    true,
                                                                    true,
                                                                    false)),
                                                                    (String
                                                                    ((Ascii
                                                                    (true,
                                                                    false,
                                                                    true,
                                                                    false,
                                                                    false,
                                                                    true,
                                                                    true,
                                                                    false)),
                                                                    EmptyString)))))))))))))))))) :: [])))
                                                                    then 
                                                                    Some
                                                                    (Cond
                                                                    ((fval t),
                                                                    (fval c),
                                                                    (fval a)))
                                                                    else None
                                                                    | _ :: _ ->
                                                                    None))))
                                                                    else 
                                                                    if 
                                                                    sq
                                                                    (String
                                                                    ((Ascii
                                                                    (false,
                                                                    true,
                                                                    false,
                                                                    false,
                                                                    false,
                                                                    false,
                                                                    true,
                                                                    false)),
                                                                    (String
                                                                    ((Ascii
                                                                    (true,
                                                                    false,
                                                                    false,
                                                                    true,
                                                                    false,
                                                                    true,
                                                                    true,
                                                                    false)),
                                                                    (String
                                                                    ((Ascii
                                                                    (false,
                                                                    true,
                                                                    true,
                                                                    true,
                                                                    false,
                                                                    true,
                                                                    true,
                                                                    false)),
                                                                    (String
                                                                    ((Ascii
                                                                    (true,
                                                                    false,
                                                                    false,
                                                                    false,
                                                                    false,
                                                                    true,
                                                                    true,
                                                                    false)),
                                                                    (String
                                                                    ((Ascii
                                                                    (false,
                                                                    true,
                                                                    false,
                                                                    false,
                                                                    true,
                                                                    true,
                                                                    true,
                                                                    false)),
                                                                    (String
                                                                    ((Ascii
                                                                    (true,
                                                                    false,
                                                                    false,
                                                                    true,
                                                                    true,
                                                                    true,
                                                                    true,
                                                                    false)),
                                                                    (String
                                                                    ((Ascii
                                                                    (true,
                                                                    false,
                                                                    true,
                                                                    false,
                                                                    false,
                                                                    false,
                                                                    true,
                                                                    false)),
                                                                    (String
                                                                    ((Ascii
                                                                    (false,
                                                                    false,
                                                                    false,
                                                                    true,
                                                                    true,
                                                                    true,
                                                                    true,
                                                                    false)),
                                                                    (String
                                                                    ((Ascii
                                                                    (false,
                                                                    false,
                                                                    false,
                                                                    false,
                                                                    true,
                                                                    true,
                                                                    true,
                                                                    false)),
                                                                    (String
                                                                    ((Ascii
                                                                    (false,
                                                                    true,
                                                                    false,
                                                                    false,
                                                                    true,
                                                                    true,
                                                                    true,
                                                                    false)),
                                                                    (String
                                                                    ((Ascii
                                                                    (true,
                                                                    false,
                                                                    true,
                                                                    false,
                                                                    false,
                                                                    true,
                                                                    true,
                                                                    false)),
                                                                    (String
                                                                    ((Ascii
                                                                    (true,
                                                                    true,
                                                                    false,
                                                                    false,
                                                                    true,
                                                                    true,
                                                                    true,
                                                                    false)),
                                                                    (String
                                                                    ((Ascii
                                                                    (true,
                                                                    true,
                                                                    false,
                                                                    false,
                                                                    true,
                                                                    true,
                                                                    true,
                                                                    false)),
                                                                    (String
                                                                    ((Ascii
                                                                    (true,
                                                                    false,
                                                                    false,
                                                                    true,
                                                                    false,
                                                                    true,
                                                                    true,
                                                                    false)),
                                                                    (String
                                                                    ((Ascii
                                                                    (true,
                                                                    true,
                                                                    true,
                                                                    true,
                                                                    false,
                                                                    true,
                                                                    true,
                                                                    false)),
                                                                    (String
                                                                    ((Ascii
                                                                    (false,
                                                                    true,
                                                                    true,
                                                                    true,
                                                                    false,
                                                                    true,
                                                                    true,
                                                                    false)),
                                                                    EmptyString))))))))))))))))))))))))))))))))
                                                                    ty
                                                                    then 
                                                                    (match r with
                                                                    | [] ->
                                                                    None
                                                                    | o :: l0 ->
                                                                    (match l0 with
                                                                    | [] ->
                                                                    None
                                                                    | l :: l1 ->
                                                                    (match l1 with
                                                                    | [] ->
                                                                    None
                                                                    | v :: l2 ->
                                                                    (match l2 with
                                                                    | [] ->
                                                                    if 
                                                                    keys_ok r
                                                                    ((String
                                                                    ((Ascii
                                                                    (true,
                                                                    true,
                                                                    true,
                                                                    true,
                                                                    false,
                                                                    true,
                                                                    true,
                                                                    false)),
                                                                    (String
                                                                    ((Ascii
                                                                    (false,
                                                                    false,
                                                                    false,
                                                                    false,
                                                                    true,
                                                                    true,
                                                                    true,
                                                                    false)),
                                                                    (String
                                                                    ((Ascii
                                                                    (true,
                                                                    false,
                                                                    true,
                                                                    false,
                                                                    false,
                                                                    true,
                                                                    true,
                                                                    false)),
                                                                    (String
                                                                    ((Ascii
                                                                    (false,
                                                                    true,
                                                                    false,
                                                                    false,
                                                                    true,
                                                                    true,
                                                                    true,
                                                                    false)),
                                                                    (String
                                                                    ((Ascii
                                                                    (true,
                                                                    false,
                                                                    false,
                                                                    false,
                                                                    false,
                                                                    true,
                                                                    true,
                                                                    false)),
                                                                    (String
                                                                    ((Ascii
                                                                    (false,
                                                                    false,
                                                                    true,
                                                                    false,
                                                                    true,
                                                                    true,
                                                                    true,
                                                                    false)),
                                                                    (String
                                                                    ((Ascii
                                                                    (true,
                                                                    true,
                                                                    true,
                                                                    true,
                                                                    false,
                                                                    true,
                                                                    true,
                                                                    false)),
                                                                    (String
                                                                    ((Ascii
                                                                    (false,
                                                                    true,
                                                                    false,
                                                                    false,
                                                                    true,
                                                                    true,
                                                                    true,
                                                                    false)),
                                                                    EmptyString)))))))))))))))) :: ((String
                                                                    ((Ascii
                                                                    (false,
                                                                    false,
                                                                    true,
                                                                    true,
                                                                    false,
                                                                    true,
                                                                    true,
                                                                    false)),
                                                                    (String
                                                                    ((Ascii
                                                                    (true,
                                                                    false,
                                                                    true,
                                                                    false,
                                                                    false,
                                                                    true,
                                                                    true,
                                                                    false)),
                                                                    (String
                                                                    ((Ascii
                                                                    (false,
                                                                    true,
                                                                    true,
                                                                    false,
                                                                    false,
                                                                    true,
                                                                    true,
                                                                    false)),
                                                                    (String
                                                                    ((Ascii
                                                                    (false,
                                                                    false,
                                                                    true,
                                                                    false,
                                                                    true,
                                                                    true,
                                                                    true,
                                                                    false)),
                                                                    EmptyString)))))))) :: ((String
                                                                    ((Ascii
                                                                    (false,
                                                                    true,
                                                                    false,
                                                                    false,
                                                                    true,
                                                                    true,
                                                                    true,
                                                                    false)),
                                                                    (String
                                                                    ((Ascii
                                                                    (true,
                                                                    false,
                                                                    false,
                                                                    true,
                                                                    false,
                                                                    true,
                                                                    true,
                                                                    false)),
                                                                    (String
                                                                    ((Ascii
                                                                    (true,
                                                                    true,
                                                                    true,
                                                                    false,
                                                                    false,
                                                                    true,
                                                                    true,
                                                                    false)),
                                                                    (String
                                                                    ((Ascii
                                                                    (false,
                                                                    false,
                                                                    false,
                                                                    true,
                                                                    false,
                                                                    true,
                                                                    true,
                                                                    false)),
                                                                    (String
                                                                    ((Ascii
                                                                    (false,
                                                                    false,
                                                                    true,
                                                                    false,
                                                                    true,
                                                                    true,
                                                                    true,
                                                                    false)),
                                                                    EmptyString)))))))))) :: [])))
                                                                    then 
                                                                    (match 
                                                                    as_str
                                                                    (fval o) with
                                                                    | Some o' ->
                                                                    Some (Bin
                                                                    (o',
                                                                    (fval l),
                                                                    (fval v)))
                                                                    | None ->
                                                                    None)
                                                                    else None
                                                                    | _ :: _ ->
                                                                    None))))
                                                                    else 
                                                                    if 
                                                                    sq
                                                                    (String
                                                                    ((Ascii
                                                                    (true,
                                                                    false,
                                                                    true,
                                                                    false,
                                                                    true,
                                                                    false,
                                                                    true,
                                                                    false)),
                                                                    (String
                                                                    ((Ascii
                                                                    (false,
                                                                    true,
                                                                    true,
                                                                    true,
                                                                    false,
                                                                    true,
                                                                    true,
                                                                    false)),
                                                                    (String
                                                                    ((Ascii
                                                                    (true,
                                                                    false,
                                                                    false,
                                                                    false,
                                                                    false,
                                                                    true,
                                                                    true,
                                                                    false)),
                                                                    (String
                                                                    ((Ascii
                                                                    (false,
                                                                    true,
                                                                    false,
                                                                    false,
                                                                    true,
                                                                    true,
                                                                    true,
                                                                    false)),
                                                                    (String
                                                                    ((Ascii
                                                                    (true,
                                                                    false,
                                                                    false,
                                                                    true,
                                                                    true,
                                                                    true,
                                                                    true,
                                                                    false)),
                                                                    (String
                                                                    ((Ascii
                                                                    (true,
                                                                    false,
                                                                    true,
                                                                    false,
                                                                    false,
                                                                    false,
                                                                    true,
                                                                    false)),
                                                                    (String
                                                                    ((Ascii
                                                                    (false,
                                                                    false,
                                                                    false,
                                                                    true,
                                                                    true,
                                                                    true,
                                                                    true,
                                                                    false)),
                                                                    (String
                                                                    ((Ascii
                                                                    (false,
                                                                    false,
                                                                    false,
                                                                    false,
                                                                    true,
                                                                    true,
                                                                    true,
                                                                    false)),
                                                                    (String
                                                                    ((Ascii
                                                                    (false,
                                                                    true,
                                                                    false,
                                                                    false,
                                                                    true,
                                                                    true,
                                                                    true,
                                                                    false)),
                                                                    (String
                                                                    ((Ascii
                                                                    (true,
                                                                    false,
                                                                    true,
                                                                    false,
                                                                    false,
                                                                    true,
                                                                    true,
                                                                    false)),
                                                                    (String
                                                                    ((Ascii
                                                                    (true,
                                                                    true,
                                                                    false,
                                                                    false,
                                                                    true,
                                                                    true,
                                                                    true,
                                                                    false)),
                                                                    (String
                                                                    ((Ascii
                                                                    (true,
                                                                    true,
                                                                    false,
                                                                    false,
                                                                    true,
                                                                    true,
                                                                    true,
                                                                    false)),
                                                                    (String
                                                                    ((Ascii
                                                                    (true,
                                                                    false,
                                                                    false,
                                                                    true,
                                                                    false,
                                                                    true,
                                                                    true,
                                                                    false)),
                                                                    (String
                                                                    ((Ascii
                                                                    (true,
                                                                    true,
                                                                    true,
                                                                    true,
                                                                    false,
                                                                    true,
                                                                    true,
                                                                    false)),
                                                                    (String
                                                                    ((Ascii
                                                                    (false,
                                                                    true,
                                                                    true,
                                                                    true,
                                                                    false,
                                                                    true,
                                                                    true,
                                                                    false)),
                                                                    EmptyString))))))))))))))))))))))))))))))
                                                                    ty
                                                                    then 
                                                                    (match r with
                                                                    | [] ->
                                                                    None
                                                                    | o :: l ->
                                                                    (match l with
                                                                    | [] ->
                                                                    None
                                                                    | a :: l0 ->
                                                                    (match l0 with
                                                                    | [] ->
                                                                    if 
                                                                    keys_ok r
                                                                    ((String
                                                                    ((Ascii
                                                                    (true,
                                                                    true,
                                                                    true,
                                                                    true,
                                                                    false,
                                                                    true,
                                                                    true,
                                                                    false)),
                                                                    (String
                                                                    ((Ascii
                                                                    (false,
                                                                    false,
                                                                    false,
                                                                    false,
                                                                    true,
                                                                    true,
                                                                    true,
                                                                    false)),
                                                                    (String
                                                                    ((Ascii
                                                                    (true,
                                                                    false,
                                                                    true,
                                                                    false,
                                                                    false,
                                                                    true,
                                                                    true,
                                                                    false)),
                                                                    (String
                                                                    ((Ascii
                                                                    (false,
                                                                    true,
                                                                    false,
                                                                    false,
                                                                    true,
                                                                    true,
                                                                    true,
                                                                    false)),
                                                                    (String
                                                                    ((Ascii
                                                                    (true,
                                                                    false,
                                                                    false,
                                                                    false,
                                                                    false,
                                                                    true,
                                                                    true,
                                                                    false)),
                                                                    (String
                                                                    ((Ascii
                                                                    (false,
                                                                    false,
                                                                    true,
                                                                    false,
                                                                    true,
                                                                    true,
                                                                    true,
                                                                    false)),
                                                                    (String
                                                                    ((Ascii
                                                                    (true,
                                                                    true,
                                                                    true,
                                                                    true,
                                                                    false,
                                                                    true,
                                                                    true,
                                                                    false)),
                                                                    (String
                                                                    ((Ascii
                                                                    (false,
                                                                    true,
                                                                    false,
                                                                    false,
                                                                    true,
                                                                    true,
                                                                    true,
                                                                    false)),
                                                                    EmptyString)))))))))))))))) :: ((String
                                                                    ((Ascii
                                                                    (true,
                                                                    false,
                                                                    false,
                                                                    false,
                                                                    false,
                                                                    true,
                                                                    true,
                                                                    false)),
                                                                    (String
                                                                    ((Ascii
                                                                    (false,
                                                                    true,
                                                                    false,
                                                                    false,
                                                                    true,
                                                                    true,
                                                                    true,
                                                                    false)),
                                                                    (String
                                                                    ((Ascii
                                                                    (true,
                                                                    true,
                                                                    true,
                                                                    false,
                                                                    false,
                                                                    true,
                                                                    true,
                                                                    false)),
                                                                    (String
                                                                    ((Ascii
                                                                    (true,
                                                                    false,
                                                                    true,
                                                                    false,
                                                                    true,
                                                                    true,
                                                                    true,
                                                                    false)),
                                                                    (String
                                                                    ((Ascii
                                                                    (true,
                                                                    false,
                                                                    true,
                                                                    true,
                                                                    false,
                                                                    true,
                                                                    true,
                                                                    false)),
                                                                    (String
                                                                    ((Ascii
                                                                    (true,
                                                                    false,
                                                                    true,
                                                                    false,
                                                                    false,
                                                                    true,
                                                                    true,
                                                                    false)),
                                                                    (String
                                                                    ((Ascii
                                                                    (false,
                                                                    true,
                                                                    true,
                                                                    true,
                                                                    false,
                                                                    true,
                                                                    true,
                                                                    false)),
                                                                    (String
                                                                    ((Ascii
                                                                    (false,
                                                                    false,
                                                                    true,
                                                                    false,
                                                                    true,
                                                                    true,
                                                                    true,
                                                                    false)),
                                                                    EmptyString)))))))))))))))) :: []))
                                                                    then 
                                                                    (match 
                                                                    as_str
                                                                    (fval o) with
                                                                    | Some o' ->
                                                                    Some
                                                                    (Unary
                                                                    (o',
                                                                    (fval a)))
                                                                    | None ->
                                                                    None)
                                                                    else None
                                                                    | _ :: _ ->
                                                                    None)))
                                                                    else 
                                                                    if 
                                                                    sq
                                                                    (String
                                                                    ((Ascii
                                                                    (true,
                                                                    false,
                                                                    true,
                                                                    true,
                                                                    false,
                                                                    false,
                                                                    true,
                                                                    false)),
                                                                    (String
                                                                    ((Ascii
                                                                    (true,
                                                                    false,
                                                                    true,
                                                                    false,
                                                                    false,
                                                                    true,
                                                                    true,
                                                                    false)),
                                                                    (String
                                                                    ((Ascii
                                                                    (true,
                                                                    false,
                                                                    true,
                                                                    true,
                                                                    false,
                                                                    true,
                                                                    true,
                                                                    false)),
                                                                    (String
                                                                    ((Ascii
                                                                    (false,
                                                                    true,
                                                                    false,
                                                                    false,
                                                                    false,
                                                                    true,
                                                                    true,
                                                                    false)),
                                                                    (String
                                                                    ((Ascii
                                                                    (true,
                                                                    false,
                                                                    true,
                                                                    false,
                                                                    false,
                                                                    true,
                                                                    true,
                                                                    false)),
                                                                    (String
                                                                    ((Ascii
                                                                    (false,
                                                                    true,
                                                                    false,
                                                                    false,
                                                                    true,
                                                                    true,
                                                                    true,
                                                                    false)),
                                                                    (String
                                                                    ((Ascii
                                                                    (true,
                                                                    false,
                                                                    true,
                                                                    false,
                                                                    false,
                                                                    false,
                                                                    true,
                                                                    false)),
                                                                    (String
                                                                    ((Ascii
                                                                    (false,
                                                                    false,
                                                                    false,
                                                                    true,
                                                                    true,
                                                                    true,
                                                                    true,
                                                                    false)),
                                                                    (String
                                                                    ((Ascii
                                                                    (false,
                                                                    false,
                                                                    false,
                                                                    false,
                                                                    true,
                                                                    true,
                                                                    true,
                                                                    false)),
                                                                    (String
                                                                    ((Ascii
                                                                    (false,
                                                                    true,
                                                                    false,
                                                                    false,
                                                                    true,
                                                                    true,
                                                                    true,
                                                                    false)),
                                                                    (String
                                                                    ((Ascii
                                                                    (true,
                                                                    false,
                                                                    true,
                                                                    false,
                                                                    false,
                                                                    true,
                                                                    true,
                                                                    false)),
                                                                    (String
                                                                    ((Ascii
                                                                    (true,
                                                                    true,
                                                                    false,
                                                                    false,
                                                                    true,
                                                                    true,
                                                                    true,
                                                                    false)),
                                                                    (String
                                                                    ((Ascii
                                                                    (true,
                                                                    true,
                                                                    false,
                                                                    false,
                                                                    true,
                                                                    true,
                                                                    true,
                                                                    false)),
                                                                    (String
                                                                    ((Ascii
                                                                    (true,
                                                                    false,
                                                                    false,
                                                                    true,
                                                                    false,
                                                                    true,
                                                                    true,
                                                                    false)),
                                                                    (String
                                                                    ((Ascii
                                                                    (true,
                                                                    true,
                                                                    true,
                                                                    true,
                                                                    false,
                                                                    true,
                                                                    true,
                                                                    false)),
                                                                    (String
                                                                    ((Ascii
                                                                    (false,
                                                                    true,
                                                                    true,
                                                                    true,
                                                                    false,
                                                                    true,
                                                                    true,
                                                                    false)),
                                                                    EmptyString))))))))))))))))))))))))))))))))
                                                                    ty
                                                                    then 
                                                                    (match r with
                                                                    | [] ->
                                                                    None
                                                                    | o :: l ->
                                                                    (match l with
                                                                    | [] ->
                                                                    None
                                                                    | p :: l0 ->
                                                                    (match l0 with
                                                                    | [] ->
                                                                    if 
                                                                    keys_ok r
                                                                    ((String
                                                                    ((Ascii
                                                                    (true,
                                                                    true,
                                                                    true,
                                                                    true,
                                                                    false,
                                                                    true,
                                                                    true,
                                                                    false)),
                                                                    (String
                                                                    ((Ascii
                                                                    (false,
                                                                    true,
                                                                    false,
                                                                    false,
                                                                    false,
                                                                    true,
                                                                    true,
                                                                    false)),
                                                                    (String
                                                                    ((Ascii
                                                                    (false,
                                                                    true,
                                                                    false,
                                                                    true,
                                                                    false,
                                                                    true,
                                                                    true,
                                                                    false)),
                                                                    (String
                                                                    ((Ascii
                                                                    (true,
                                                                    false,
                                                                    true,
                                                                    false,
                                                                    false,
                                                                    true,
                                                                    true,
                                                                    false)),
                                                                    (String
                                                                    ((Ascii
                                                                    (true,
                                                                    true,
                                                                    false,
                                                                    false,
                                                                    false,
                                                                    true,
                                                                    true,
                                                                    false)),
                                                                    (String
                                                                    ((Ascii
                                                                    (false,
                                                                    false,
                                                                    true,
                                                                    false,
                                                                    true,
                                                                    true,
                                                                    true,
                                                                    false)),
                                                                    EmptyString)))))))))))) :: ((String
                                                                    ((Ascii
                                                                    (false,
                                                                    false,
                                                                    false,
                                                                    false,
                                                                    true,
                                                                    true,
                                                                    true,
                                                                    false)),
                                                                    (String
                                                                    ((Ascii
                                                                    (false,
                                                                    true,
                                                                    false,
                                                                    false,
                                                                    true,
                                                                    true,
                                                                    true,
                                                                    false)),
                                                                    (String
                                                                    ((Ascii
                                                                    (true,
                                                                    true,
                                                                    true,
                                                                    true,
                                                                    false,
                                                                    true,
                                                                    true,
                                                                    false)),
                                                                    (String
                                                                    ((Ascii
                                                                    (false,
                                                                    false,
                                                                    false,
                                                                    false,
                                                                    true,
                                                                    true,
                                                                    true,
                                                                    false)),
                                                                    (String
                                                                    ((Ascii
                                                                    (true,
                                                                    false,
                                                                    true,
                                                                    false,
                                                                    false,
                                                                    true,
                                                                    true,
                                                                    false)),
                                                                    (String
                                                                    ((Ascii
                                                                    (false,
                                                                    true,
                                                                    false,
                                                                    false,
                                                                    true,
                                                                    true,
                                                                    true,
                                                                    false)),
                                                                    (String
                                                                    ((Ascii
                                                                    (false,
                                                                    false,
                                                                    true,
                                                                    false,
                                                                    true,
                                                                    true,
                                                                    true,
                                                                    false)),
                                                                    (String
                                                                    ((Ascii
                                                                    (true,
                                                                    false,
                                                                    false,
                                                                    true,
                                                                    true,
                                                                    true,
                                                                    true,
                                                                    false)),
                                                                    EmptyString)))))))))))))))) :: []))
                                                                    then 
                                                                    Some
                                                                    (Member
                                                                    ((fval o),
                                                                    (fval p)))
                                                                    else None
                                                                    | _ :: _ ->
                                                                    None)))
                                                                    else 
                                                                    if 
                                                                    sq
                                                                    (String
                                                                    ((Ascii
                                                                    (false,
                                                                    true,
                                                                    false,
                                                                    false,
                                                                    false,
                                                                    false,
                                                                    true,
                                                                    false)),
                                                                    (String
                                                                    ((Ascii
                                                                    (false,
                                                                    false,
                                                                    true,
                                                                    true,
                                                                    false,
                                                                    true,
                                                                    true,
                                                                    false)),
                                                                    (String
                                                                    ((Ascii
                                                                    (true,
                                                                    true,
                                                                    true,
                                                                    true,
                                                                    false,
                                                                    true,
                                                                    true,
                                                                    false)),
                                                                    (String
                                                                    ((Ascii
                                                                    (true,
                                                                    true,
                                                                    false,
                                                                    false,
                                                                    false,
                                                                    true,
                                                                    true,
                                                                    false)),
                                                                    (String
                                                                    ((Ascii
                                                                    (true,
                                                                    true,
                                                                    false,
                                                                    true,
                                                                    false,
                                                                    true,
                                                                    true,
                                                                    false)),
                                                                    (String
                                                                    ((Ascii
                                                                    (true,
                                                                    true,
                                                                    false,
                                                                    false,
                                                                    true,
                                                                    false,
                                                                    true,
                                                                    false)),
                                                                    (String
                                                                    ((Ascii
                                                                    (false,
                                                                    false,
                                                                    true,
                                                                    false,
                                                                    true,
                                                                    true,
                                                                    true,
                                                                    false)),
                                                                    (String
                                                                    ((Ascii
                                                                    (true,
                                                                    false,
                                                                    false,
                                                                    false,
                                                                    false,
                                                                    true,
                                                                    true,
                                                                    false)),
                                                                    (String
                                                                    ((Ascii
                                                                    (false,
                                                                    false,
                                                                    true,
                                                                    false,
                                                                    true,
                                                                    true,
                                                                    true,
                                                                    false)),
                                                                    (String
                                                                    ((Ascii
                                                                    (true,
                                                                    false,
                                                                    true,
                                                                    false,
                                                                    false,
                                                                    true,
                                                                    true,
                                                                    false)),
                                                                    (String
                                                                    ((Ascii
                                                                    (true,
                                                                    false,
                                                                    true,
                                                                    true,
                                                                    false,
                                                                    true,
                                                                    true,
                                                                    false)),
                                                                    (String
                                                                    ((Ascii
                                                                    (true,
                                                                    false,
                                                                    true,
                                                                    false,
                                                                    false,
                                                                    true,
                                                                    true,
                                                                    false)),
                                                                    (String
                                                                    ((Ascii
                                                                    (false,
                                                                    true,
                                                                    true,
                                                                    true,
                                                                    false,
                                                                    true,
                                                                    true,
                                                                    false)),
                                                                    (String
                                                                    ((Ascii
                                                                    (false,
                                                                    false,
                                                                    true,
                                                                    false,
                                                                    true,
                                                                    true,
                                                                    true,
                                                                    false)),
                                                                    EmptyString))))))))))))))))))))))))))))
                                                                    ty
                                                                    then 
                                                                    (match r with
                                                                    | [] ->
                                                                    None
                                                                    | c :: l ->
                                                                    (match l with
                                                                    | [] ->
                                                                    None
                                                                    | s :: l0 ->
                                                                    (match l0 with
                                                                    | [] ->
                                                                    if 
                                                                    keys_ok r
                                                                    ((String
                                                                    ((Ascii
                                                                    (true,
                                                                    true,
                                                                    false,
                                                                    false,
                                                                    false,
                                                                    true,
                                                                    true,
                                                                    false)),
                                                                    (String
                                                                    ((Ascii
                                                                    (false,
                                                                    false,
                                                                    true,
                                                                    false,
                                                                    true,
                                                                    true,
                                                                    true,
                                                                    false)),
                                                                    (String
                                                                    ((Ascii
                                                                    (false,
                                                                    false,
                                                                    false,
                                                                    true,
                                                                    true,
                                                                    true,
                                                                    true,
                                                                    false)),
                                                                    (String
                                                                    ((Ascii
                                                                    (false,
                                                                    false,
                                                                    true,
                                                                    false,
                                                                    true,
                                                                    true,
                                                                    true,
                                                                    false)),
                                                                    EmptyString)))))))) :: ((String
                                                                    ((Ascii
                                                                    (true,
                                                                    true,
                                                                    false,
                                                                    false,
                                                                    true,
                                                                    true,
                                                                    true,
                                                                    false)),
                                                                    (String
                                                                    ((Ascii
                                                                    (false,
                                                                    false,
                                                                    true,
                                                                    false,
                                                                    true,
                                                                    true,
                                                                    true,
                                                                    false)),
                                                                    (String
                                                                    ((Ascii
                                                                    (true,
                                                                    false,
                                                                    true,
                                                                    true,
                                                                    false,
                                                                    true,
                                                                    true,
                                                                    false)),
                                                                    (String
                                                                    ((Ascii
                                                                    (false,
                                                                    false,
                                                                    true,
                                                                    false,
                                                                    true,
                                                                    true,
                                                                    true,
                                                                    false)),
                                                                    (String
                                                                    ((Ascii
                                                                    (true,
                                                                    true,
                                                                    false,
                                                                    false,
                                                                    true,
                                                                    true,
                                                                    true,
                                                                    false)),
                                                                    EmptyString)))))))))) :: []))
                                                                    then 
                                                                    (match 
                                                                    as_N
                                                                    (fval c) with
                                                                    | Some c' ->
                                                                    (match 
                                                                    as_list
                                                                    (fval s) with
                                                                    | Some s' ->
                                                                    Some
                                                                    (Block
                                                                    (c', s'))
                                                                    | None ->
                                                                    None)
                                                                    | None ->
                                                                    None)
                                                                    else None
                                                                    | _ :: _ ->
                                                                    None)))
                                                                    else 
                                                                    if 
                                                                    sq
                                                                    (String
                                                                    ((Ascii
                                                                    (false,
                                                                    true,
                                                                    false,
                                                                    true,
                                                                    false,
                                                                    false,
                                                                    true,
                                                                    false)),
                                                                    (String
                                                                    ((Ascii
                                                                    (true,
                                                                    true,
                                                                    false,
                                                                    false,
                                                                    true,
                                                                    false,
                                                                    true,
                                                                    false)),
                                                                    (String
                                                                    ((Ascii
                                                                    (false,
                                                                    false,
                                                                    false,
                                                                    true,
                                                                    true,
                                                                    false,
                                                                    true,
                                                                    false)),
                                                                    (String
                                                                    ((Ascii
                                                                    (true,
                                                                    false,
                                                                    true,
                                                                    false,
                                                                    false,
                                                                    false,
                                                                    true,
                                                                    false)),
                                                                    (String
                                                                    ((Ascii
                                                                    (false,
                                                                    false,
                                                                    true,
                                                                    true,
                                                                    false,
                                                                    true,
                                                                    true,
                                                                    false)),
                                                                    (String
                                                                    ((Ascii
                                                                    (true,
                                                                    false,
                                                                    true,
                                                                    false,
                                                                    false,
                                                                    true,
                                                                    true,
                                                                    false)),
                                                                    (String
                                                                    ((Ascii
                                                                    (true,
                                                                    false,
                                                                    true,
                                                                    true,
                                                                    false,
                                                                    true,
                                                                    true,
                                                                    false)),
                                                                    (String
                                                                    ((Ascii
                                                                    (true,
                                                                    false,
                                                                    true,
                                                                    false,
                                                                    false,
                                                                    true,
                                                                    true,
                                                                    false)),
                                                                    (String
                                                                    ((Ascii
                                                                    (false,
                                                                    true,
                                                                    true,
                                                                    true,
                                                                    false,
                                                                    true,
                                                                    true,
                                                                    false)),
                                                                    (String
                                                                    ((Ascii
                                                                    (false,
                                                                    false,
                                                                    true,
                                                                    false,
                                                                    true,
                                                                    true,
                                                                    true,
                                                                    false)),
                                                                    EmptyString))))))))))))))))))))
                                                                    ty
                                                                    then 
                                                                    (match r with
                                                                    | [] ->
                                                                    None
                                                                    | o :: l ->
                                                                    (match l with
                                                                    | [] ->
                                                                    None
                                                                    | ch :: l0 ->
                                                                    (match l0 with
                                                                    | [] ->
                                                                    None
                                                                    | cl :: l1 ->
                                                                    (match l1 with
                                                                    | [] ->
                                                                    if 
                                                                    keys_ok r
                                                                    ((String
                                                                    ((Ascii
                                                                    (true,
                                                                    true,
                                                                    true,
                                                                    true,
                                                                    false,
                                                                    true,
                                                                    true,
                                                                    false)),
                                                                    (String
                                                                    ((Ascii
                                                                    (false,
                                                                    false,
                                                                    false,
                                                                    false,
                                                                    true,
                                                                    true,
                                                                    true,
                                                                    false)),
                                                                    (String
                                                                    ((Ascii
                                                                    (true,
                                                                    false,
                                                                    true,
                                                                    false,
                                                                    false,
                                                                    true,
                                                                    true,
                                                                    false)),
                                                                    (String
                                                                    ((Ascii
                                                                    (false,
                                                                    true,
                                                                    true,
                                                                    true,
                                                                    false,
                                                                    true,
                                                                    true,
                                                                    false)),
                                                                    (String
                                                                    ((Ascii
                                                                    (true,
                                                                    false,
                                                                    false,
                                                                    true,
                                                                    false,
                                                                    true,
                                                                    true,
                                                                    false)),
                                                                    (String
                                                                    ((Ascii
                                                                    (false,
                                                                    true,
                                                                    true,
                                                                    true,
                                                                    false,
                                                                    true,
                                                                    true,
                                                                    false)),
                                                                    (String
                                                                    ((Ascii
                                                                    (true,
                                                                    true,
                                                                    true,
                                                                    false,
                                                                    false,
                                                                    true,
                                                                    true,
                                                                    false)),
                                                                    EmptyString)))))))))))))) :: ((String
                                                                    ((Ascii
                                                                    (true,
                                                                    true,
                                                                    false,
                                                                    false,
                                                                    false,
                                                                    true,
                                                                    true,
                                                                    false)),
                                                                    (String
                                                                    ((Ascii
                                                                    (false,
                                                                    false,
                                                                    false,
                                                                    true,
                                                                    false,
                                                                    true,
                                                                    true,
                                                                    false)),
                                                                    (String
                                                                    ((Ascii
                                                                    (true,
                                                                    false,
                                                                    false,
                                                                    true,
                                                                    false,
                                                                    true,
                                                                    true,
                                                                    false)),
                                                                    (String
                                                                    ((Ascii
                                                                    (false,
                                                                    false,
                                                                    true,
                                                                    true,
                                                                    false,
                                                                    true,
                                                                    true,
                                                                    false)),
                                                                    (String
                                                                    ((Ascii
                                                                    (false,
                                                                    false,
                                                                    true,
                                                                    false,
                                                                    false,
                                                                    true,
                                                                    true,
                                                                    false)),
                                                                    (String
                                                                    ((Ascii
                                                                    (false,
                                                                    true,
                                                                    false,
                                                                    false,
                                                                    true,
                                                                    true,
                                                                    true,
                                                                    false)),
                                                                    (String
                                                                    ((Ascii
                                                                    (true,
                                                                    false,
                                                                    true,
                                                                    false,
                                                                    false,
                                                                    true,
                                                                    true,
                                                                    false)),
                                                                    (String
                                                                    ((Ascii
                                                                    (false,
                                                                    true,
                                                                    true,
                                                                    true,
                                                                    false,
                                                                    true,
                                                                    true,
                                                                    false)),
                                                                    EmptyString)))))))))))))))) :: ((String
                                                                    ((Ascii
                                                                    (true,
                                                                    true,
                                                                    false,
                                                                    false,
                                                                    false,
                                                                    true,
                                                                    true,
                                                                    false)),
                                                                    (String
                                                                    ((Ascii
                                                                    (false,
                                                                    false,
                                                                    true,
                                                                    true,
                                                                    false,
                                                                    true,
                                                                    true,
                                                                    false)),
                                                                    (String
                                                                    ((Ascii
                                                                    (true,
                                                                    true,
                                                                    true,
                                                                    true,
                                                                    false,
                                                                    true,
                                                                    true,
                                                                    false)),
                                                                    (String
                                                                    ((Ascii
                                                                    (true,
                                                                    true,
                                                                    false,
                                                                    false,
                                                                    true,
                                                                    true,
                                                                    true,
                                                                    false)),
                                                                    (String
                                                                    ((Ascii
                                                                    (true,
                                                                    false,
                                                                    false,
                                                                    true,
                                                                    false,
                                                                    true,
                                                                    true,
                                                                    false)),
                                                                    (String
                                                                    ((Ascii
                                                                    (false,
                                                                    true,
                                                                    true,
                                                                    true,
                                                                    false,
                                                                    true,
                                                                    true,
                                                                    false)),
                                                                    (String
                                                                    ((Ascii
                                                                    (true,
                                                                    true,
                                                                    true,
                                                                    false,
                                                                    false,
                                                                    true,
                                                                    true,
                                                                    false)),
                                                                    EmptyString)))))))))))))) :: [])))
                                                                    then 
                                                                    (match 
                                                                    fval o with
                                                                    | NObj l2 ->
                                                                    (match l2 with
                                                                    | [] ->
                                                                    None
                                                                    | n0 :: r' ->
                                                                    (match n0 with
                                                                    | Field (
                                                                    kt, v) ->
                                                                    (match v with
                                                                    | NScalar j ->
                                                                    (match j with
                                                                    | JStr ot ->
                                                                    (match r' with
                                                                    | [] ->
                                                                    None
                                                                    | n :: l3 ->
                                                                    (match l3 with
                                                                    | [] ->
                                                                    None
                                                                    | a :: l4 ->
                                                                    (match l4 with
                                                                    | [] ->
                                                                    None
                                                                    | sc :: l5 ->
                                                                    (match l5 with
                                                                    | [] ->
                                                                    None
                                                                    | ta :: l6 ->
                                                                    (match l6 with
                                                                    | [] ->
                                                                    if 
                                                                    (&&)
                                                                    ((&&)
                                                                    (sq
                                                                    (String
                                                                    ((Ascii
                                                                    (false,
                                                                    false,
                                                                    true,
                                                                    false,
                                                                    true,
                                                                    true,
                                                                    true,
                                                                    false)),
                                                                    (String
                                                                    ((Ascii
                                                                    (true,
                                                                    false,
                                                                    false,
                                                                    true,
                                                                    true,
                                                                    true,
                                                                    true,
                                                                    false)),
                                                                    (String
                                                                    ((Ascii
                                                                    (false,
                                                                    false,
                                                                    false,
                                                                    false,
                                                                    true,
                                                                    true,
                                                                    true,
                                                                    false)),
                                                                    (String
                                                                    ((Ascii
                                                                    (true,
                                                                    false,
                                                                    true,
                                                                    false,
                                                                    false,
                                                                    true,
                                                                    true,
                                                                    false)),
                                                                    EmptyString))))))))
                                                                    kt)
                                                                    (sq
                                                                    (String
                                                                    ((Ascii
                                                                    (false,
                                                                    true,
                                                                    false,
                                                                    true,
                                                                    false,
                                                                    false,
                                                                    true,
                                                                    false)),
                                                                    (String
                                                                    ((Ascii
                                                                    (true,
                                                                    true,
                                                                    false,
                                                                    false,
                                                                    true,
                                                                    false,
                                                                    true,
                                                                    false)),
                                                                    (String
                                                                    ((Ascii
                                                                    (false,
                                                                    false,
                                                                    false,
                                                                    true,
                                                                    true,
                                                                    false,
                                                                    true,
                                                                    false)),
                                                                    (String
                                                                    ((Ascii
                                                                    (true,
                                                                    true,
                                                                    true,
                                                                    true,
                                                                    false,
                                                                    false,
                                                                    true,
                                                                    false)),
                                                                    (String
                                                                    ((Ascii
                                                                    (false,
                                                                    false,
                                                                    false,
                                                                    false,
                                                                    true,
                                                                    true,
                                                                    true,
                                                                    false)),
                                                                    (String
                                                                    ((Ascii
                                                                    (true,
                                                                    false,
                                                                    true,
                                                                    false,
                                                                    false,
                                                                    true,
                                                                    true,
                                                                    false)),
                                                                    (String
                                                                    ((Ascii
                                                                    (false,
                                                                    true,
                                                                    true,
                                                                    true,
                                                                    false,
                                                                    true,
                                                                    true,
                                                                    false)),
                                                                    (String
                                                                    ((Ascii
                                                                    (true,
                                                                    false,
                                                                    false,
                                                                    true,
                                                                    false,
                                                                    true,
                                                                    true,
                                                                    false)),
                                                                    (String
                                                                    ((Ascii
                                                                    (false,
                                                                    true,
                                                                    true,
                                                                    true,
                                                                    false,
                                                                    true,
                                                                    true,
                                                                    false)),
                                                                    (String
                                                                    ((Ascii
                                                                    (true,
                                                                    true,
                                                                    true,
                                                                    false,
                                                                    false,
                                                                    true,
                                                                    true,
                                                                    false)),
                                                                    (String
                                                                    ((Ascii
                                                                    (true,
                                                                    false,
                                                                    true,
                                                                    false,
                                                                    false,
                                                                    false,
                                                                    true,
                                                                    false)),
                                                                    (String
                                                                    ((Ascii
                                                                    (false,
                                                                    false,
                                                                    true,
                                                                    true,
                                                                    false,
                                                                    true,
                                                                    true,
                                                                    false)),
                                                                    (String
                                                                    ((Ascii
                                                                    (true,
                                                                    false,
                                                                    true,
                                                                    false,
                                                                    false,
                                                                    true,
                                                                    true,
                                                                    false)),
                                                                    (String
                                                                    ((Ascii
                                                                    (true,
                                                                    false,
                                                                    true,
                                                                    true,
                                                                    false,
                                                                    true,
                                                                    true,
                                                                    false)),
                                                                    (String
                                                                    ((Ascii
                                                                    (true,
                                                                    false,
                                                                    true,
                                                                    false,
                                                                    false,
                                                                    true,
                                                                    true,
                                                                    false)),
                                                                    (String
                                                                    ((Ascii
                                                                    (false,
                                                                    true,
                                                                    true,
                                                                    true,
                                                                    false,
                                                                    true,
                                                                    true,
                                                                    false)),
                                                                    (String
                                                                    ((Ascii
                                                                    (false,
                                                                    false,
                                                                    true,
                                                                    false,
                                                                    true,
                                                                    true,
                                                                    true,
                                                                    false)),
                                                                    EmptyString))))))))))))))))))))))))))))))))))
                                                                    ot))
                                                                    (keys_ok
                                                                    r'
                                                                    ((String
                                                                    ((Ascii
                                                                    (false,
                                                                    true,
                                                                    true,
                                                                    true,
                                                                    false,
                                                                    true,
                                                                    true,
                                                                    false)),
                                                                    (String
                                                                    ((Ascii
                                                                    (true,
                                                                    false,
                                                                    false,
                                                                    false,
                                                                    false,
                                                                    true,
                                                                    true,
                                                                    false)),
                                                                    (String
                                                                    ((Ascii
                                                                    (true,
                                                                    false,
                                                                    true,
                                                                    true,
                                                                    false,
                                                                    true,
                                                                    true,
                                                                    false)),
                                                                    (String
                                                                    ((Ascii
                                                                    (true,
                                                                    false,
                                                                    true,
                                                                    false,
                                                                    false,
                                                                    true,
                                                                    true,
                                                                    false)),
                                                                    EmptyString)))))))) :: ((String
                                                                    ((Ascii
                                                                    (true,
                                                                    false,
                                                                    false,
                                                                    false,
                                                                    false,
                                                                    true,
                                                                    true,
                                                                    false)),
                                                                    (String
                                                                    ((Ascii
                                                                    (false,
                                                                    false,
                                                                    true,
                                                                    false,
                                                                    true,
                                                                    true,
                                                                    true,
                                                                    false)),
                                                                    (String
                                                                    ((Ascii
                                                                    (false,
                                                                    false,
                                                                    true,
                                                                    false,
                                                                    true,
                                                                    true,
                                                                    true,
                                                                    false)),
                                                                    (String
                                                                    ((Ascii
                                                                    (false,
                                                                    true,
                                                                    false,
                                                                    false,
                                                                    true,
                                                                    true,
                                                                    true,
                                                                    false)),
                                                                    (String
                                                                    ((Ascii
                                                                    (true,
                                                                    false,
                                                                    false,
                                                                    true,
                                                                    false,
                                                                    true,
                                                                    true,
                                                                    false)),
                                                                    (String
                                                                    ((Ascii
                                                                    (false,
                                                                    true,
                                                                    false,
                                                                    false,
                                                                    false,
                                                                    true,
                                                                    true,
                                                                    false)),
                                                                    (String
                                                                    ((Ascii
                                                                    (true,
                                                                    false,
                                                                    true,
                                                                    false,
                                                                    true,
                                                                    true,
                                                                    true,
                                                                    false)),
                                                                    (String
                                                                    ((Ascii
                                                                    (false,
                                                                    false,
                                                                    true,
                                                                    false,
                                                                    true,
                                                                    true,
                                                                    true,
                                                                    false)),
                                                                    (String
                                                                    ((Ascii
                                                                    (true,
                                                                    false,
                                                                    true,
                                                                    false,
                                                                    false,
                                                                    true,
                                                                    true,
                                                                    false)),
                                                                    (String
                                                                    ((Ascii
                                                                    (true,
                                                                    true,
                                                                    false,
                                                                    false,
                                                                    true,
                                                                    true,
                                                                    true,
                                                                    false)),
                                                                    EmptyString)))))))))))))))))))) :: ((String
                                                                    ((Ascii
                                                                    (true,
                                                                    true,
                                                                    false,
                                                                    false,
                                                                    true,
                                                                    true,
                                                                    true,
                                                                    false)),
                                                                    (String
                                                                    ((Ascii
                                                                    (true,
                                                                    false,
                                                                    true,
                                                                    false,
                                                                    false,
                                                                    true,
                                                                    true,
                                                                    false)),
                                                                    (String
                                                                    ((Ascii
                                                                    (false,
                                                                    false,
                                                                    true,
                                                                    true,
                                                                    false,
                                                                    true,
                                                                    true,
                                                                    false)),
                                                                    (String
                                                                    ((Ascii
                                                                    (false,
                                                                    true,
                                                                    true,
                                                                    false,
                                                                    false,
                                                                    true,
                                                                    true,
                                                                    false)),
                                                                    (String
                                                                    ((Ascii
                                                                    (true,
                                                                    true,
                                                                    false,
                                                                    false,
                                                                    false,
                                                                    false,
                                                                    true,
                                                                    false)),
                                                                    (String
                                                                    ((Ascii
                                                                    (false,
                                                                    false,
                                                                    true,
                                                                    true,
                                                                    false,
                                                                    true,
                                                                    true,
                                                                    false)),
                                                                    (String
                                                                    ((Ascii
                                                                    (true,
                                                                    true,
                                                                    true,
                                                                    true,
                                                                    false,
                                                                    true,
                                                                    true,
                                                                    false)),
                                                                    (String
                                                                    ((Ascii
                                                                    (true,
                                                                    true,
                                                                    false,
                                                                    false,
                                                                    true,
                                                                    true,
                                                                    true,
                                                                    false)),
                                                                    (String
                                                                    ((Ascii
                                                                    (true,
                                                                    false,
                                                                    false,
                                                                    true,
                                                                    false,
                                                                    true,
                                                                    true,
                                                                    false)),
                                                                    (String
                                                                    ((Ascii
                                                                    (false,
                                                                    true,
                                                                    true,
                                                                    true,
                                                                    false,
                                                                    true,
                                                                    true,
                                                                    false)),
                                                                    (String
                                                                    ((Ascii
                                                                    (true,
                                                                    true,
                                                                    true,
                                                                    false,
                                                                    false,
                                                                    true,
                                                                    true,
                                                                    false)),
                                                                    EmptyString)))))))))))))))))))))) :: ((String
                                                                    ((Ascii
                                                                    (false,
                                                                    false,
                                                                    true,
                                                                    false,
                                                                    true,
                                                                    true,
                                                                    true,
                                                                    false)),
                                                                    (String
                                                                    ((Ascii
                                                                    (true,
                                                                    false,
                                                                    false,
                                                                    true,
                                                                    true,
                                                                    true,
                                                                    true,
                                                                    false)),
                                                                    (String
                                                                    ((Ascii
                                                                    (false,
                                                                    false,
                                                                    false,
                                                                    false,
                                                                    true,
                                                                    true,
                                                                    true,
                                                                    false)),
                                                                    (String
                                                                    ((Ascii
                                                                    (true,
                                                                    false,
                                                                    true,
                                                                    false,
                                                                    false,
                                                                    true,
                                                                    true,
                                                                    false)),
                                                                    (String
                                                                    ((Ascii
                                                                    (true,
                                                                    false,
                                                                    false,
                                                                    false,
                                                                    false,
                                                                    false,
                                                                    true,
                                                                    false)),
                                                                    (String
                                                                    ((Ascii
                                                                    (false,
                                                                    true,
                                                                    false,
                                                                    false,
                                                                    true,
                                                                    true,
                                                                    true,
                                                                    false)),
                                                                    (String
                                                                    ((Ascii
                                                                    (true,
                                                                    true,
                                                                    true,
                                                                    false,
                                                                    false,
                                                                    true,
                                                                    true,
                                                                    false)),
                                                                    (String
                                                                    ((Ascii
                                                                    (true,
                                                                    false,
                                                                    true,
                                                                    false,
                                                                    true,
                                                                    true,
                                                                    true,
                                                                    false)),
                                                                    (String
                                                                    ((Ascii
                                                                    (true,
                                                                    false,
                                                                    true,
                                                                    true,
                                                                    false,
                                                                    true,
                                                                    true,
                                                                    false)),
                                                                    (String
                                                                    ((Ascii
                                                                    (true,
                                                                    false,
                                                                    true,
                                                                    false,
                                                                    false,
                                                                    true,
                                                                    true,
                                                                    false)),
                                                                    (String
                                                                    ((Ascii
                                                                    (false,
                                                                    true,
                                                                    true,
                                                                    true,
                                                                    false,
                                                                    true,
                                                                    true,
                                                                    false)),
                                                                    (String
                                                                    ((Ascii
                                                                    (false,
                                                                    false,
                                                                    true,
                                                                    false,
                                                                    true,
                                                                    true,
                                                                    true,
                                                                    false)),
                                                                    (String
                                                                    ((Ascii
                                                                    (true,
                                                                    true,
                                                                    false,
                                                                    false,
                                                                    true,
                                                                    true,
                                                                    true,
                                                                    false)),
                                                                    EmptyString)))))))))))))))))))))))))) :: [])))))
                                                                    then 
                                                                    (match 
                                                                    as_list
                                                                    (fval a) with
                                                                    | Some a' ->
                                                                    (match 
                                                                    as_bool
                                                                    (fval sc) with
                                                                    | Some sc' ->
                                                                    (match 
                                                                    as_list
                                                                    (fval ch) with
                                                                    | Some ch' ->
                                                                    Some
                                                                    (JsxE
                                                                    ((fval n),
                                                                    a', sc',
                                                                    (fval ta),
                                                                    ch',
                                                                    (fval cl)))
                                                                    | None ->
                                                                    None)
                                                                    | None ->
                                                                    None)
                                                                    | None ->
                                                                    None)
                                                                    else None
                                                                    | _ :: _ ->
                                                                    None)))))
                                                                    | _ ->
                                                                    None)
                                                                    | _ ->
                                                                    None)
                                                                    | _ ->
                                                                    None))
                                                                    | _ ->
                                                                    None)
                                                                    else None
                                                                    | _ :: _ ->
                                                                    None))))
                                                                    else 
                                                                    if 
                                                                    sq
                                                                    (String
                                                                    ((Ascii
                                                                    (false,
                                                                    true,
                                                                    false,
                                                                    true,
                                                                    false,
                                                                    false,
                                                                    true,
                                                                    false)),
                                                                    (String
                                                                    ((Ascii
                                                                    (true,
                                                                    true,
                                                                    false,
                                                                    false,
                                                                    true,
                                                                    false,
                                                                    true,
                                                                    false)),
                                                                    (String
                                                                    ((Ascii
                                                                    (false,
                                                                    false,
                                                                    false,
                                                                    true,
                                                                    true,
                                                                    false,
                                                                    true,
                                                                    false)),
                                                                    (String
                                                                    ((Ascii
                                                                    (false,
                                                                    true,
                                                                    true,
                                                                    false,
                                                                    false,
                                                                    false,
                                                                    true,
                                                                    false)),
                                                                    (String
                                                                    ((Ascii
                                                                    (false,
                                                                    true,
                                                                    false,
                                                                    false,
                                                                    true,
                                                                    true,
                                                                    true,
                                                                    false)),
                                                                    (String
                                                                    ((Ascii
                                                                    (true,
                                                                    false,
                                                                    false,
                                                                    false,
                                                                    false,
                                                                    true,
                                                                    true,
                                                                    false)),
                                                                    (String
                                                                    ((Ascii
                                                                    (true,
                                                                    true,
                                                                    true,
                                                                    false,
                                                                    false,
                                                                    true,
                                                                    true,
                                                                    false)),
                                                                    (String
                                                                    ((Ascii
                                                                    (true,
                                                                    false,
                                                                    true,
                                                                    true,
                                                                    false,
                                                                    true,
                                                                    true,
                                                                    false)),
                                                                    (String
                                                                    ((Ascii
                                                                    (true,
                                                                    false,
                                                                    true,
                                                                    false,
                                                                    false,
                                                                    true,
                                                                    true,
                                                                    false)),
                                                                    (String
                                                                    ((Ascii
                                                                    (false,
                                                                    true,
                                                                    true,
                                                                    true,
                                                                    false,
                                                                    true,
                                                                    true,
                                                                    false)),
                                                                    (String
                                                                    ((Ascii
                                                                    (false,
                                                                    false,
                                                                    true,
                                                                    false,
                                                                    true,
                                                                    true,
                                                                    true,
                                                                    false)),
                                                                    EmptyString))))))))))))))))))))))
                                                                    ty
                                                                    then 
                                                                    (match r with
                                                                    | [] ->
                                                                    None
                                                                    | o :: l ->
                                                                    (match l with
                                                                    | [] ->
                                                                    None
                                                                    | ch :: l0 ->
                                                                    (match l0 with
                                                                    | [] ->
                                                                    None
                                                                    | cl :: l1 ->
                                                                    (match l1 with
                                                                    | [] ->
                                                                    if 
                                                                    keys_ok r
                                                                    ((String
                                                                    ((Ascii
                                                                    (true,
                                                                    true,
                                                                    true,
                                                                    true,
                                                                    false,
                                                                    true,
                                                                    true,
                                                                    false)),
                                                                    (String
                                                                    ((Ascii
                                                                    (false,
                                                                    false,
                                                                    false,
                                                                    false,
                                                                    true,
                                                                    true,
                                                                    true,
                                                                    false)),
                                                                    (String
                                                                    ((Ascii
                                                                    (true,
                                                                    false,
                                                                    true,
                                                                    false,
                                                                    false,
                                                                    true,
                                                                    true,
                                                                    false)),
                                                                    (String
                                                                    ((Ascii
                                                                    (false,
                                                                    true,
                                                                    true,
                                                                    true,
                                                                    false,
                                                                    true,
                                                                    true,
                                                                    false)),
                                                                    (String
                                                                    ((Ascii
                                                                    (true,
                                                                    false,
                                                                    false,
                                                                    true,
                                                                    false,
                                                                    true,
                                                                    true,
                                                                    false)),
                                                                    (String
                                                                    ((Ascii
                                                                    (false,
                                                                    true,
                                                                    true,
                                                                    true,
                                                                    false,
                                                                    true,
                                                                    true,
                                                                    false)),
                                                                    (String
                                                                    ((Ascii
                                                                    (true,
                                                                    true,
                                                                    true,
                                                                    false,
                                                                    false,
                                                                    true,
                                                                    true,
                                                                    false)),
                                                                    EmptyString)))))))))))))) :: ((String
                                                                    ((Ascii
                                                                    (true,
                                                                    true,
                                                                    false,
                                                                    false,
                                                                    false,
                                                                    true,
                                                                    true,
                                                                    false)),
                                                                    (String
                                                                    ((Ascii
                                                                    (false,
                                                                    false,
                                                                    false,
                                                                    true,
                                                                    false,
                                                                    true,
                                                                    true,
                                                                    false)),
                                                                    (String
                                                                    ((Ascii
                                                                    (true,
                                                                    false,
                                                                    false,
                                                                    true,
                                                                    false,
                                                                    true,
                                                                    true,
                                                                    false)),
                                                                    (String
                                                                    ((Ascii
                                                                    (false,
                                                                    false,
                                                                    true,
                                                                    true,
                                                                    false,
                                                                    true,
                                                                    true,
                                                                    false)),
                                                                    (String
                                                                    ((Ascii
                                                                    (false,
                                                                    false,
                                                                    true,
                                                                    false,
                                                                    false,
                                                                    true,
                                                                    true,
                                                                    false)),
                                                                    (String
                                                                    ((Ascii
                                                                    (false,
                                                                    true,
                                                                    false,
                                                                    false,
                                                                    true,
                                                                    true,
                                                                    true,
                                                                    false)),
                                                                    (String
                                                                    ((Ascii
                                                                    (true,
                                                                    false,
                                                                    true,
                                                                    false,
                                                                    false,
                                                                    true,
                                                                    true,
                                                                    false)),
                                                                    (String
                                                                    ((Ascii
                                                                    (false,
                                                                    true,
                                                                    true,
                                                                    true,
                                                                    false,
                                                                    true,
                                                                    true,
                                                                    false)),
                                                                    EmptyString)))))))))))))))) :: ((String
                                                                    ((Ascii
                                                                    (true,
                                                                    true,
                                                                    false,
                                                                    false,
                                                                    false,
                                                                    true,
                                                                    true,
                                                                    false)),
                                                                    (String
                                                                    ((Ascii
                                                                    (false,
                                                                    false,
                                                                    true,
                                                                    true,
                                                                    false,
                                                                    true,
                                                                    true,
                                                                    false)),
                                                                    (String
                                                                    ((Ascii
                                                                    (true,
                                                                    true,
                                                                    true,
                                                                    true,
                                                                    false,
                                                                    true,
                                                                    true,
                                                                    false)),
                                                                    (String
                                                                    ((Ascii
                                                                    (true,
                                                                    true,
                                                                    false,
                                                                    false,
                                                                    true,
                                                                    true,
                                                                    true,
                                                                    false)),
                                                                    (String
                                                                    ((Ascii
                                                                    (true,
                                                                    false,
                                                                    false,
                                                                    true,
                                                                    false,
                                                                    true,
                                                                    true,
                                                                    false)),
                                                                    (String
                                                                    ((Ascii
                                                                    (false,
                                                                    true,
                                                                    true,
                                                                    true,
                                                                    false,
                                                                    true,
                                                                    true,
                                                                    false)),
                                                                    (String
                                                                    ((Ascii
                                                                    (true,
                                                                    true,
                                                                    true,
                                                                    false,
                                                                    false,
                                                                    true,
                                                                    true,
                                                                    false)),
                                                                    EmptyString)))))))))))))) :: [])))
                                                                    then 
                                                                    (match 
                                                                    fval o with
                                                                    | NObj l2 ->
                                                                    (match l2 with
                                                                    | [] ->
                                                                    None
                                                                    | n :: l3 ->
                                                                    (match n with
                                                                    | Field (
                                                                    k1, v) ->
                                                                    (match v with
                                                                    | NScalar j ->
                                                                    (match j with
                                                                    | JStr t1 ->
                                                                    (match l3 with
                                                                    | [] ->
                                                                    (match 
                                                                    fval cl with
                                                                    | NObj l4 ->
                                                                    (match l4 with
                                                                    | [] ->
                                                                    None
                                                                    | n0 :: l5 ->
                                                                    (match n0 with
                                                                    | Field (
                                                                    k2, v0) ->
                                                                    (match v0 with
                                                                    | NScalar j0 ->
                                                                    (match j0 with
                                                                    | JStr t2 ->
                                                                    (match l5 with
                                                                    | [] ->
                                                                    if 
                                                                    (&&)
                                                                    ((&&)
                                                                    ((&&)
                                                                    (sq
                                                                    (String
                                                                    ((Ascii
                                                                    (false,
                                                                    false,
                                                                    true,
                                                                    false,
                                                                    true,
                                                                    true,
                                                                    true,
                                                                    false)),
                                                                    (String
                                                                    ((Ascii
                                                                    (true,
                                                                    false,
                                                                    false,
                                                                    true,
                                                                    true,
                                                                    true,
                                                                    true,
                                                                    false)),
                                                                    (String
                                                                    ((Ascii
                                                                    (false,
                                                                    false,
                                                                    false,
                                                                    false,
                                                                    true,
                                                                    true,
                                                                    true,
                                                                    false)),
                                                                    (String
                                                                    ((Ascii
                                                                    (true,
                                                                    false,
                                                                    true,
                                                                    false,
                                                                    false,
                                                                    true,
                                                                    true,
                                                                    false)),
                                                                    EmptyString))))))))
                                                                    k1)
                                                                    (sq
                                                                    (String
                                                                    ((Ascii
                                                                    (false,
                                                                    true,
                                                                    false,
                                                                    true,
                                                                    false,
                                                                    false,
                                                                    true,
                                                                    false)),
                                                                    (String
                                                                    ((Ascii
                                                                    (true,
                                                                    true,
                                                                    false,
                                                                    false,
                                                                    true,
                                                                    false,
                                                                    true,
                                                                    false)),
                                                                    (String
                                                                    ((Ascii
                                                                    (false,
                                                                    false,
                                                                    false,
                                                                    true,
                                                                    true,
                                                                    false,
                                                                    true,
                                                                    false)),
                                                                    (String
                                                                    ((Ascii
                                                                    (true,
                                                                    true,
                                                                    true,
                                                                    true,
                                                                    false,
                                                                    false,
                                                                    true,
                                                                    false)),
                                                                    (String
                                                                    ((Ascii
                                                                    (false,
                                                                    false,
                                                                    false,
                                                                    false,
                                                                    true,
                                                                    true,
                                                                    true,
                                                                    false)),
                                                                    (String
                                                                    ((Ascii
                                                                    (true,
                                                                    false,
                                                                    true,
                                                                    false,
                                                                    false,
                                                                    true,
                                                                    true,
                                                                    false)),
                                                                    (String
                                                                    ((Ascii
                                                                    (false,
                                                                    true,
                                                                    true,
                                                                    true,
                                                                    false,
                                                                    true,
                                                                    true,
                                                                    false)),
                                                                    (String
                                                                    ((Ascii
                                                                    (true,
                                                                    false,
                                                                    false,
                                                                    true,
                                                                    false,
                                                                    true,
                                                                    true,
                                                                    false)),
                                                                    (String
                                                                    ((Ascii
                                                                    (false,
                                                                    true,
                                                                    true,
                                                                    true,
                                                                    false,
                                                                    true,
                                                                    true,
                                                                    false)),
                                                                    (String
                                                                    ((Ascii
                                                                    (true,
                                                                    true,
                                                                    true,
                                                                    false,
                                                                    false,
                                                                    true,
                                                                    true,
                                                                    false)),
                                                                    (String
                                                                    ((Ascii
                                                                    (false,
                                                                    true,
                                                                    true,
                                                                    false,
                                                                    false,
                                                                    false,
                                                                    true,
                                                                    false)),
                                                                    (String
                                                                    ((Ascii
                                                                    (false,
                                                                    true,
                                                                    false,
                                                                    false,
                                                                    true,
                                                                    true,
                                                                    true,
                                                                    false)),
                                                                    (String
                                                                    ((Ascii
                                                                    (true,
                                                                    false,
                                                                    false,
                                                                    false,
                                                                    false,
                                                                    true,
                                                                    true,
                                                                    false)),
                                                                    (String
                                                                    ((Ascii
                                                                    (true,
                                                                    true,
                                                                    true,
                                                                    false,
                                                                    false,
                                                                    true,
                                                                    true,
                                                                    false)),
                                                                    (String
                                                                    ((Ascii
                                                                    (true,
                                                                    false,
                                                                    true,
                                                                    true,
                                                                    false,
                                                                    true,
                                                                    true,
                                                                    false)),
                                                                    (String
                                                                    ((Ascii
                                                                    (true,
                                                                    false,
                                                                    true,
                                                                    false,
                                                                    false,
                                                                    true,
                                                                    true,
                                                                    false)),
                                                                    (String
                                                                    ((Ascii
                                                                    (false,
                                                                    true,
                                                                    true,
                                                                    true,
                                                                    false,
                                                                    true,
                                                                    true,
                                                                    false)),
                                                                    (String
                                                                    ((Ascii
                                                                    (false,
                                                                    false,
                                                                    true,
                                                                    false,
                                                                    true,
                                                                    true,
                                                                    true,
                                                                    false)),
                                                                    EmptyString))))))))))))))))))))))))))))))))))))
                                                                    t1))
                                                                    (sq
                                                                    (String
                                                                    ((Ascii
                                                                    (false,
                                                                    false,
                                                                    true,
                                                                    false,
                                                                    true,
                                                                    true,
                                                                    true,
                                                                    false)),
                                                                    (String
                                                                    ((Ascii
                                                                    (true,
                                                                    false,
                                                                    false,
                                                                    true,
                                                                    true,
                                                                    true,
                                                                    true,
                                                                    false)),
                                                                    (String
                                                                    ((Ascii
                                                                    (false,
                                                                    false,
                                                                    false,
                                                                    false,
                                                                    true,
                                                                    true,
                                                                    true,
                                                                    false)),
                                                                    (String
                                                                    ((Ascii
                                                                    (true,
                                                                    false,
                                                                    true,
                                                                    false,
                                                                    false,
                                                                    true,
                                                                    true,
                                                                    false)),
                                                                    EmptyString))))))))
                                                                    k2))
                                                                    (sq
                                                                    (String
                                                                    ((Ascii
                                                                    (false,
                                                                    true,
                                                                    false,
                                                                    true,
                                                                    false,
                                                                    false,
                                                                    true,
                                                                    false)),
                                                                    (String
                                                                    ((Ascii
                                                                    (true,
                                                                    true,
                                                                    false,
                                                                    false,
                                                                    true,
                                                                    false,
                                                                    true,
                                                                    false)),
                                                                    (String
                                                                    ((Ascii
                                                                    (false,
                                                                    false,
                                                                    false,
                                                                    true,
                                                                    true,
                                                                    false,
                                                                    true,
                                                                    false)),
                                                                    (String
                                                                    ((Ascii
                                                                    (true,
                                                                    true,
                                                                    false,
                                                                    false,
                                                                    false,
                                                                    false,
                                                                    true,
                                                                    false)),
                                                                    (String
                                                                    ((Ascii
                                                                    (false,
                                                                    false,
                                                                    true,
                                                                    true,
                                                                    false,
                                                                    true,
                                                                    true,
                                                                    false)),
                                                                    (String
                                                                    ((Ascii
                                                                    (true,
                                                                    true,
                                                                    true,
                                                                    true,
                                                                    false,
                                                                    true,
                                                                    true,
                                                                    false)),
                                                                    (String
                                                                    ((Ascii
                                                                    (true,
                                                                    true,
                                                                    false,
                                                                    false,
                                                                    true,
                                                                    true,
                                                                    true,
                                                                    false)),
                                                                    (String
                                                                    ((Ascii
                                                                    (true,
                                                                    false,
                                                                    false,
                                                                    true,
                                                                    false,
                                                                    true,
                                                                    true,
                                                                    false)),
                                                                    (String
                                                                    ((Ascii
                                                                    (false,
                                                                    true,
                                                                    true,
                                                                    true,
                                                                    false,
                                                                    true,
                                                                    true,
                                                                    false)),
                                                                    (String
                                                                    ((Ascii
                                                                    (true,
                                                                    true,
                                                                    true,
                                                                    false,
                                                                    false,
                                                                    true,
                                                                    true,
                                                                    false)),
                                                                    (String
                                                                    ((Ascii
                                                                    (false,
                                                                    true,
                                                                    true,
                                                                    false,
                                                                    false,
                                                                    false,
                                                                    true,
                                                                    false)),
                                                                    (String
                                                                    ((Ascii
                                                                    (false,
                                                                    true,
                                                                    false,
                                                                    false,
                                                                    true,
                                                                    true,
                                                                    true,
                                                                    false)),
                                                                    (String
                                                                    ((Ascii
                                                                    (true,
                                                                    false,
                                                                    false,
                                                                    false,
                                                                    false,
                                                                    true,
                                                                    true,
                                                                    false)),
                                                                    (String
                                                                    ((Ascii
                                                                    (true,
                                                                    true,
                                                                    true,
                                                                    false,
                                                                    false,
                                                                    true,
                                                                    true,
                                                                    false)),
                                                                    (String
                                                                    ((Ascii
                                                                    (true,
                                                                    false,
                                                                    true,
                                                                    true,
                                                                    false,
                                                                    true,
                                                                    true,
                                                                    false)),
                                                                    (String
                                                                    ((Ascii
                                                                    (true,
                                                                    false,
                                                                    true,
                                                                    false,
                                                                    false,
                                                                    true,
                                                                    true,
                                                                    false)),
                                                                    (String
                                                                    ((Ascii
                                                                    (false,
                                                                    true,
                                                                    true,
                                                                    true,
                                                                    false,
                                                                    true,
                                                                    true,
                                                                    false)),
                                                                    (String
                                                                    ((Ascii
                                                                    (false,
                                                                    false,
                                                                    true,
                                                                    false,
                                                                    true,
                                                                    true,
                                                                    true,
                                                                    false)),
                                                                    EmptyString))))))))))))))))))))))))))))))))))))
                                                                    t2)
                                                                    then 
                                                                    (match 
                                                                    as_list
                                                                    (fval ch) with
                                                                    | Some ch' ->
                                                                    Some
                                                                    (JsxF ch')
                                                                    | None ->
                                                                    None)
                                                                    else None
                                                                    | _ :: _ ->
                                                                    None)
                                                                    | _ ->
                                                                    None)
                                                                    | _ ->
                                                                    None)
                                                                    | _ ->
                                                                    None))
                                                                    | _ ->
                                                                    None)
                                                                    | _ :: _ ->
                                                                    None)
                                                                    | _ ->
                                                                    None)
                                                                    | _ ->
                                                                    None)
                                                                    | _ ->
                                                                    None))
                                                                    | _ ->
                                                                    None)
                                                                    else None
                                                                    | _ :: _ ->
                                                                    None))))
                                                                    else 
                                                                    if 
                                                                    sq
                                                                    (String
                                                                    ((Ascii
                                                                    (false,
                                                                    true,
                                                                    false,
                                                                    true,
                                                                    false,
                                                                    false,
                                                                    true,
                                                                    false)),
                                                                    (String
                                                                    ((Ascii
                                                                    (true,
                                                                    true,
                                                                    false,
                                                                    false,
                                                                    true,
                                                                    false,
                                                                    true,
                                                                    false)),
                                                                    (String
                                                                    ((Ascii
                                                                    (false,
                                                                    false,
                                                                    false,
                                                                    true,
                                                                    true,
                                                                    false,
                                                                    true,
                                                                    false)),
                                                                    (String
                                                                    ((Ascii
                                                                    (true,
                                                                    false,
                                                                    false,
                                                                    false,
                                                                    false,
                                                                    false,
                                                                    true,
                                                                    false)),
                                                                    (String
                                                                    ((Ascii
                                                                    (false,
                                                                    false,
                                                                    true,
                                                                    false,
                                                                    true,
                                                                    true,
                                                                    true,
                                                                    false)),
                                                                    (String
                                                                    ((Ascii
                                                                    (false,
                                                                    false,
                                                                    true,
                                                                    false,
                                                                    true,
                                                                    true,
                                                                    true,
                                                                    false)),
                                                                    (String
                                                                    ((Ascii
                                                                    (false,
                                                                    true,
                                                                    false,
                                                                    false,
                                                                    true,
                                                                    true,
                                                                    true,
                                                                    false)),
                                                                    (String
                                                                    ((Ascii
                                                                    (true,
                                                                    false,
                                                                    false,
                                                                    true,
                                                                    false,
                                                                    true,
                                                                    true,
                                                                    false)),
                                                                    (String
                                                                    ((Ascii
                                                                    (false,
                                                                    true,
                                                                    false,
                                                                    false,
                                                                    false,
                                                                    true,
                                                                    true,
                                                                    false)),
                                                                    (String
                                                                    ((Ascii
                                                                    (true,
                                                                    false,
                                                                    true,
                                                                    false,
                                                                    true,
                                                                    true,
                                                                    true,
                                                                    false)),
                                                                    (String
                                                                    ((Ascii
                                                                    (false,
                                                                    false,
                                                                    true,
                                                                    false,
                                                                    true,
                                                                    true,
                                                                    true,
                                                                    false)),
                                                                    (String
                                                                    ((Ascii
                                                                    (true,
                                                                    false,
                                                                    true,
                                                                    false,
                                                                    false,
                                                                    true,
                                                                    true,
                                                                    false)),
                                                                    EmptyString))))))))))))))))))))))))
                                                                    ty
                                                                    then 
                                                                    (match r with
                                                                    | [] ->
                                                                    None
                                                                    | n :: l ->
                                                                    (match l with
                                                                    | [] ->
                                                                    None
                                                                    | v :: l0 ->
                                                                    (match l0 with
                                                                    | [] ->
                                                                    if 
                                                                    keys_ok r
                                                                    ((String
                                                                    ((Ascii
                                                                    (false,
                                                                    true,
                                                                    true,
                                                                    true,
                                                                    false,
                                                                    true,
                                                                    true,
                                                                    false)),
                                                                    (String
                                                                    ((Ascii
                                                                    (true,
                                                                    false,
                                                                    false,
                                                                    false,
                                                                    false,
                                                                    true,
                                                                    true,
                                                                    false)),
                                                                    (String
                                                                    ((Ascii
                                                                    (true,
                                                                    false,
                                                                    true,
                                                                    true,
                                                                    false,
                                                                    true,
                                                                    true,
                                                                    false)),
                                                                    (String
                                                                    ((Ascii
                                                                    (true,
                                                                    false,
                                                                    true,
                                                                    false,
                                                                    false,
                                                                    true,
                                                                    true,
                                                                    false)),
                                                                    EmptyString)))))))) :: ((String
                                                                    ((Ascii
                                                                    (false,
                                                                    true,
                                                                    true,
                                                                    false,
                                                                    true,
                                                                    true,
                                                                    true,
                                                                    false)),
                                                                    (String
                                                                    ((Ascii
                                                                    (true,
                                                                    false,
                                                                    false,
                                                                    false,
                                                                    false,
                                                                    true,
                                                                    true,
                                                                    false)),
                                                                    (String
                                                                    ((Ascii
                                                                    (false,
                                                                    false,
                                                                    true,
                                                                    true,
                                                                    false,
                                                                    true,
                                                                    true,
                                                                    false)),
                                                                    (String
                                                                    ((Ascii
                                                                    (true,
                                                                    false,
                                                                    true,
                                                                    false,
                                                                    true,
                                                                    true,
                                                                    true,
                                                                    false)),
                                                                    (String
                                                                    ((Ascii
                                                                    (true,
                                                                    false,
                                                                    true,
                                                                    false,
                                                                    false,
                                                                    true,
                                                                    true,
                                                                    false)),
                                                                    EmptyString)))))))))) :: []))
                                                                    then 
                                                                    Some
                                                                    (JAttr
                                                                    ((fval n),
                                                                    (fval v)))
                                                                    else None
                                                                    | _ :: _ ->
                                                                    None)))
                                                                    else 
                                                                    if 
                                                                    sq
                                                                    (String
                                                                    ((Ascii
                                                                    (false,
                                                                    true,
                                                                    false,
                                                                    true,
                                                                    false,
                                                                    false,
                                                                    true,
                                                                    false)),
                                                                    (String
                                                                    ((Ascii
                                                                    (true,
                                                                    true,
                                                                    false,
                                                                    false,
                                                                    true,
                                                                    false,
                                                                    true,
                                                                    false)),
                                                                    (String
                                                                    ((Ascii
                                                                    (false,
                                                                    false,
                                                                    false,
                                                                    true,
                                                                    true,
                                                                    false,
                                                                    true,
                                                                    false)),
                                                                    (String
                                                                    ((Ascii
                                                                    (false,
                                                                    true,
                                                                    true,
                                                                    true,
                                                                    false,
                                                                    false,
                                                                    true,
                                                                    false)),
                                                                    (String
                                                                    ((Ascii
                                                                    (true,
                                                                    false,
                                                                    false,
                                                                    false,
                                                                    false,
                                                                    true,
                                                                    true,
                                                                    false)),
                                                                    (String
                                                                    ((Ascii
                                                                    (true,
                                                                    false,
                                                                    true,
                                                                    true,
                                                                    false,
                                                                    true,
                                                                    true,
                                                                    false)),
                                                                    (String
                                                                    ((Ascii
                                                                    (true,
                                                                    false,
                                                                    true,
                                                                    false,
                                                                    false,
                                                                    true,
                                                                    true,
                                                                    false)),
                                                                    (String
                                                                    ((Ascii
                                                                    (true,
                                                                    true,
                                                                    false,
                                                                    false,
                                                                    true,
                                                                    true,
                                                                    true,
                                                                    false)),
                                                                    (String
                                                                    ((Ascii
                                                                    (false,
                                                                    false,
                                                                    false,
                                                                    false,
                                                                    true,
                                                                    true,
                                                                    true,
                                                                    false)),
                                                                    (String
                                                                    ((Ascii
                                                                    (true,
                                                                    false,
                                                                    false,
                                                                    false,
                                                                    false,
                                                                    true,
                                                                    true,
                                                                    false)),
                                                                    (String
                                                                    ((Ascii
                                                                    (true,
                                                                    true,
                                                                    false,
                                                                    false,
                                                                    false,
                                                                    true,
                                                                    true,
                                                                    false)),
                                                                    (String
                                                                    ((Ascii
                                                                    (true,
                                                                    false,
                                                                    true,
                                                                    false,
                                                                    false,
                                                                    true,
                                                                    true,
                                                                    false)),
                                                                    (String
                                                                    ((Ascii
                                                                    (false,
                                                                    false,
                                                                    true,
                                                                    false,
                                                                    false,
                                                                    true,
                                                                    true,
                                                                    false)),
                                                                    (String
                                                                    ((Ascii
                                                                    (false,
                                                                    true,
                                                                    true,
                                                                    true,
                                                                    false,
                                                                    false,
                                                                    true,
                                                                    false)),
                                                                    (String
                                                                    ((Ascii
                                                                    (true,
                                                                    false,
                                                                    false,
                                                                    false,
                                                                    false,
                                                                    true,
                                                                    true,
                                                                    false)),
                                                                    (String
                                                                    ((Ascii
                                                                    (true,
                                                                    false,
                                                                    true,
                                                                    true,
                                                                    false,
                                                                    true,
                                                                    true,
                                                                    false)),
                                                                    (String
                                                                    ((Ascii
                                                                    (true,
                                                                    false,
                                                                    true,
                                                                    false,
                                                                    false,
                                                                    true,
                                                                    true,
                                                                    false)),
                                                                    EmptyString))))))))))))))))))))))))))))))))))
                                                                    ty
                                                                    then 
                                                                    (match r with
                                                                    | [] ->
                                                                    None
                                                                    | n :: l ->
                                                                    (match l with
                                                                    | [] ->
                                                                    None
                                                                    | v :: l0 ->
                                                                    (match l0 with
                                                                    | [] ->
                                                                    if 
                                                                    keys_ok r
                                                                    ((String
                                                                    ((Ascii
                                                                    (false,
                                                                    true,
                                                                    true,
                                                                    true,
                                                                    false,
                                                                    true,
                                                                    true,
                                                                    false)),
                                                                    (String
                                                                    ((Ascii
                                                                    (true,
                                                                    false,
                                                                    false,
                                                                    false,
                                                                    false,
                                                                    true,
                                                                    true,
                                                                    false)),
                                                                    (String
                                                                    ((Ascii
                                                                    (true,
                                                                    false,
                                                                    true,
                                                                    true,
                                                                    false,
                                                                    true,
                                                                    true,
                                                                    false)),
                                                                    (String
                                                                    ((Ascii
                                                                    (true,
                                                                    false,
                                                                    true,
                                                                    false,
                                                                    false,
                                                                    true,
                                                                    true,
                                                                    false)),
                                                                    (String
                                                                    ((Ascii
                                                                    (true,
                                                                    true,
                                                                    false,
                                                                    false,
                                                                    true,
                                                                    true,
                                                                    true,
                                                                    false)),
                                                                    (String
                                                                    ((Ascii
                                                                    (false,
                                                                    false,
                                                                    false,
                                                                    false,
                                                                    true,
                                                                    true,
                                                                    true,
                                                                    false)),
                                                                    (String
                                                                    ((Ascii
                                                                    (true,
                                                                    false,
                                                                    false,
                                                                    false,
                                                                    false,
                                                                    true,
                                                                    true,
                                                                    false)),
                                                                    (String
                                                                    ((Ascii
                                                                    (true,
                                                                    true,
                                                                    false,
                                                                    false,
                                                                    false,
                                                                    true,
                                                                    true,
                                                                    false)),
                                                                    (String
                                                                    ((Ascii
                                                                    (true,
                                                                    false,
                                                                    true,
                                                                    false,
                                                                    false,
                                                                    true,
                                                                    true,
                                                                    false)),
                                                                    EmptyString)))))))))))))))))) :: ((String
                                                                    ((Ascii
                                                                    (false,
                                                                    true,
                                                                    true,
                                                                    true,
                                                                    false,
                                                                    true,
                                                                    true,
                                                                    false)),
                                                                    (String
                                                                    ((Ascii
                                                                    (true,
                                                                    false,
                                                                    false,
                                                                    false,
                                                                    false,
                                                                    true,
                                                                    true,
                                                                    false)),
                                                                    (String
                                                                    ((Ascii
                                                                    (true,
                                                                    false,
                                                                    true,
                                                                    true,
                                                                    false,
                                                                    true,
                                                                    true,
                                                                    false)),
                                                                    (String
                                                                    ((Ascii
                                                                    (true,
                                                                    false,
                                                                    true,
                                                                    false,
                                                                    false,
                                                                    true,
                                                                    true,
                                                                    false)),
                                                                    EmptyString)))))))) :: []))
                                                                    then 
                                                                    Some (JNs
                                                                    ((fval n),
                                                                    (fval v)))
                                                                    else None
                                                                    | _ :: _ ->
                                                                    None)))
                                                                    else 
                                                                    if 
                                                                    sq
                                                                    (String
                                                                    ((Ascii
                                                                    (false,
                                                                    true,
                                                                    false,
                                                                    true,
                                                                    false,
                                                                    false,
                                                                    true,
                                                                    false)),
                                                                    (String
                                                                    ((Ascii
                                                                    (true,
                                                                    true,
                                                                    false,
                                                                    false,
                                                                    true,
                                                                    false,
                                                                    true,
                                                                    false)),
                                                                    (String
                                                                    ((Ascii
                                                                    (false,
                                                                    false,
                                                                    false,
                                                                    true,
                                                                    true,
                                                                    false,
                                                                    true,
                                                                    false)),
                                                                    (String
                                                                    ((Ascii
                                                                    (true,
                                                                    false,
                                                                    true,
                                                                    false,
                                                                    false,
                                                                    false,
                                                                    true,
                                                                    false)),
                                                                    (String
                                                                    ((Ascii
                                                                    (false,
                                                                    false,
                                                                    false,
                                                                    true,
                                                                    true,
                                                                    true,
                                                                    true,
                                                                    false)),
                                                                    (String
                                                                    ((Ascii
                                                                    (false,
                                                                    false,
                                                                    false,
                                                                    false,
                                                                    true,
                                                                    true,
                                                                    true,
                                                                    false)),
                                                                    (String
                                                                    ((Ascii
                                                                    (false,
                                                                    true,
                                                                    false,
                                                                    false,
                                                                    true,
                                                                    true,
                                                                    true,
                                                                    false)),
                                                                    (String
                                                                    ((Ascii
                                                                    (true,
                                                                    false,
                                                                    true,
                                                                    false,
                                                                    false,
                                                                    true,
                                                                    true,
                                                                    false)),
                                                                    (String
                                                                    ((Ascii
                                                                    (true,
                                                                    true,
                                                                    false,
                                                                    false,
                                                                    true,
                                                                    true,
                                                                    true,
                                                                    false)),
                                                                    (String
                                                                    ((Ascii
                                                                    (true,
                                                                    true,
                                                                    false,
                                                                    false,
                                                                    true,
                                                                    true,
                                                                    true,
                                                                    false)),
                                                                    (String
                                                                    ((Ascii
                                                                    (true,
                                                                    false,
                                                                    false,
                                                                    true,
                                                                    false,
                                                                    true,
                                                                    true,
                                                                    false)),
                                                                    (String
                                                                    ((Ascii
                                                                    (true,
                                                                    true,
                                                                    true,
                                                                    true,
                                                                    false,
                                                                    true,
                                                                    true,
                                                                    false)),
                                                                    (String
                                                                    ((Ascii
                                                                    (false,
                                                                    true,
                                                                    true,
                                                                    true,
                                                                    false,
                                                                    true,
                                                                    true,
                                                                    false)),
                                                                    (String
                                                                    ((Ascii
                                                                    (true,
                                                                    true,
                                                                    false,
                                                                    false,
                                                                    false,
                                                                    false,
                                                                    true,
                                                                    false)),
                                                                    (String
                                                                    ((Ascii
                                                                    (true,
                                                                    true,
                                                                    true,
                                                                    true,
                                                                    false,
                                                                    true,
                                                                    true,
                                                                    false)),
                                                                    (String
                                                                    ((Ascii
                                                                    (false,
                                                                    true,
                                                                    true,
                                                                    true,
                                                                    false,
                                                                    true,
                                                                    true,
                                                                    false)),
                                                                    (String
                                                                    ((Ascii
                                                                    (false,
                                                                    false,
                                                                    true,
                                                                    false,
                                                                    true,
                                                                    true,
                                                                    true,
                                                                    false)),
                                                                    (String
                                                                    ((Ascii
                                                                    (true,
                                                                    false,
                                                                    false,
                                                                    false,
                                                                    false,
                                                                    true,
                                                                    true,
                                                                    false)),
                                                                    (String
                                                                    ((Ascii
                                                                    (true,
                                                                    false,
                                                                    false,
                                                                    true,
                                                                    false,
                                                                    true,
                                                                    true,
                                                                    false)),
                                                                    (String
                                                                    ((Ascii
                                                                    (false,
                                                                    true,
                                                                    true,
                                                                    true,
                                                                    false,
                                                                    true,
                                                                    true,
                                                                    false)),
                                                                    (String
                                                                    ((Ascii
                                                                    (true,
                                                                    false,
                                                                    true,
                                                                    false,
                                                                    false,
                                                                    true,
                                                                    true,
                                                                    false)),
                                                                    (String
                                                                    ((Ascii
                                                                    (false,
                                                                    true,
                                                                    false,
                                                                    false,
                                                                    true,
                                                                    true,
                                                                    true,
                                                                    false)),
                                                                    EmptyString))))))))))))))))))))))))))))))))))))))))))))
                                                                    ty
                                                                    then 
                                                                    (match r with
                                                                    | [] ->
                                                                    None
                                                                    | e :: l ->
                                                                    (match l with
                                                                    | [] ->
                                                                    if 
                                                                    keys_ok r
                                                                    ((String
                                                                    ((Ascii
                                                                    (true,
                                                                    false,
                                                                    true,
                                                                    false,
                                                                    false,
                                                                    true,
                                                                    true,
                                                                    false)),
                                                                    (String
                                                                    ((Ascii
                                                                    (false,
                                                                    false,
                                                                    false,
                                                                    true,
                                                                    true,
                                                                    true,
                                                                    true,
                                                                    false)),
                                                                    (String
                                                                    ((Ascii
                                                                    (false,
                                                                    false,
                                                                    false,
                                                                    false,
                                                                    true,
                                                                    true,
                                                                    true,
                                                                    false)),
                                                                    (String
                                                                    ((Ascii
                                                                    (false,
                                                                    true,
                                                                    false,
                                                                    false,
                                                                    true,
                                                                    true,
                                                                    true,
                                                                    false)),
                                                                    (String
                                                                    ((Ascii
                                                                    (true,
                                                                    false,
                                                                    true,
                                                                    false,
                                                                    false,
                                                                    true,
                                                                    true,
                                                                    false)),
                                                                    (String
                                                                    ((Ascii
                                                                    (true,
                                                                    true,
                                                                    false,
                                                                    false,
                                                                    true,
                                                                    true,
                                                                    true,
                                                                    false)),
                                                                    (String
                                                                    ((Ascii
                                                                    (true,
                                                                    true,
                                                                    false,
                                                                    false,
                                                                    true,
                                                                    true,
                                                                    true,
                                                                    false)),
                                                                    (String
                                                                    ((Ascii
                                                                    (true,
                                                                    false,
                                                                    false,
                                                                    true,
                                                                    false,
                                                                    true,
                                                                    true,
                                                                    false)),
                                                                    (String
                                                                    ((Ascii
                                                                    (true,
                                                                    true,
                                                                    true,
                                                                    true,
                                                                    false,
                                                                    true,
                                                                    true,
                                                                    false)),
                                                                    (String
                                                                    ((Ascii
                                                                    (false,
                                                                    true,
                                                                    true,
                                                                    true,
                                                                    false,
                                                                    true,
                                                                    true,
                                                                    false)),
                                                                    EmptyString)))))))))))))))))))) :: [])
                                                                    then 
                                                                    Some
                                                                    (JExprC
                                                                    (fval e))
                                                                    else None
                                                                    | _ :: _ ->
                                                                    None))
                                                                    else 
                                                                    if 
                                                                    sq
                                                                    (String
                                                                    ((Ascii
                                                                    (false,
                                                                    true,
                                                                    false,
                                                                    true,
                                                                    false,
                                                                    false,
                                                                    true,
                                                                    false)),
                                                                    (String
                                                                    ((Ascii
                                                                    (true,
                                                                    true,
                                                                    false,
                                                                    false,
                                                                    true,
                                                                    false,
                                                                    true,
                                                                    false)),
                                                                    (String
                                                                    ((Ascii
                                                                    (false,
                                                                    false,
                                                                    false,
                                                                    true,
                                                                    true,
                                                                    false,
                                                                    true,
                                                                    false)),
                                                                    (String
                                                                    ((Ascii
                                                                    (true,
                                                                    false,
                                                                    true,
                                                                    false,
                                                                    false,
                                                                    false,
                                                                    true,
                                                                    false)),
                                                                    (String
                                                                    ((Ascii
                                                                    (true,
                                                                    false,
                                                                    true,
                                                                    true,
                                                                    false,
                                                                    true,
                                                                    true,
                                                                    false)),
                                                                    (String
                                                                    ((Ascii
                                                                    (false,
                                                                    false,
                                                                    false,
                                                                    false,
                                                                    true,
                                                                    true,
                                                                    true,
                                                                    false)),
                                                                    (String
                                                                    ((Ascii
                                                                    (false,
                                                                    false,
                                                                    true,
                                                                    false,
                                                                    true,
                                                                    true,
                                                                    true,
                                                                    false)),
                                                                    (String
                                                                    ((Ascii
                                                                    (true,
                                                                    false,
                                                                    false,
                                                                    true,
                                                                    true,
                                                                    true,
                                                                    true,
                                                                    false)),
                                                                    (String
                                                                    ((Ascii
                                                                    (true,
                                                                    false,
                                                                    true,
                                                                    false,
                                                                    false,
                                                                    false,
                                                                    true,
                                                                    false)),
                                                                    (String
                                                                    ((Ascii
                                                                    (false,
                                                                    false,
                                                                    false,
                                                                    true,
                                                                    true,
                                                                    true,
                                                                    true,
                                                                    false)),
                                                                    (String
                                                                    ((Ascii
                                                                    (false,
                                                                    false,
                                                                    false,
                                                                    false,
                                                                    true,
                                                                    true,
                                                                    true,
                                                                    false)),
                                                                    (String
                                                                    ((Ascii
                                                                    (false,
                                                                    true,
                                                                    false,
                                                                    false,
                                                                    true,
                                                                    true,
                                                                    true,
                                                                    false)),
                                                                    (String
                                                                    ((Ascii
                                                                    (true,
                                                                    false,
                                                                    true,
                                                                    false,
                                                                    false,
                                                                    true,
                                                                    true,
                                                                    false)),
                                                                    (String
                                                                    ((Ascii
                                                                    (true,
                                                                    true,
                                                                    false,
                                                                    false,
                                                                    true,
                                                                    true,
                                                                    true,
                                                                    false)),
                                                                    (String
                                                                    ((Ascii
                                                                    (true,
                                                                    true,
                                                                    false,
                                                                    false,
                                                                    true,
                                                                    true,
                                                                    true,
                                                                    false)),
                                                                    (String
                                                                    ((Ascii
                                                                    (true,
                                                                    false,
                                                                    false,
                                                                    true,
                                                                    false,
                                                                    true,
                                                                    true,
                                                                    false)),
                                                                    (String
                                                                    ((Ascii
                                                                    (true,
                                                                    true,
                                                                    true,
                                                                    true,
                                                                    false,
                                                                    true,
                                                                    true,
                                                                    false)),
                                                                    (String
                                                                    ((Ascii
                                                                    (false,
                                                                    true,
                                                                    true,
                                                                    true,
                                                                    false,
                                                                    true,
                                                                    true,
                                                                    false)),
                                                                    EmptyString))))))))))))))))))))))))))))))))))))
                                                                    ty
                                                                    then 
                                                                    (match r with
                                                                    | [] ->
                                                                    Some
                                                                    JEmpty
                                                                    | _ :: _ ->
                                                                    None)
                                                                    else 
                                                                    if 
                                                                    sq
                                                                    (String
                                                                    ((Ascii
                                                                    (false,
                                                                    true,
                                                                    false,
                                                                    true,
                                                                    false,
                                                                    false,
                                                                    true,
                                                                    false)),
                                                                    (String
                                                                    ((Ascii
                                                                    (true,
                                                                    true,
                                                                    false,
                                                                    false,
                                                                    true,
                                                                    false,
                                                                    true,
                                                                    false)),
                                                                    (String
                                                                    ((Ascii
                                                                    (false,
                                                                    false,
                                                                    false,
                                                                    true,
                                                                    true,
                                                                    false,
                                                                    true,
                                                                    false)),
                                                                    (String
                                                                    ((Ascii
                                                                    (false,
                                                                    false,
                                                                    true,
                                                                    false,
                                                                    true,
                                                                    false,
                                                                    true,
                                                                    false)),
                                                                    (String
                                                                    ((Ascii
                                                                    (true,
                                                                    false,
                                                                    true,
                                                                    false,
                                                                    false,
                                                                    true,
                                                                    true,
                                                                    false)),
                                                                    (String
                                                                    ((Ascii
                                                                    (false,
                                                                    false,
                                                                    false,
                                                                    true,
                                                                    true,
                                                                    true,
                                                                    true,
                                                                    false)),
                                                                    (String
                                                                    ((Ascii
                                                                    (false,
                                                                    false,
                                                                    true,
                                                                    false,
                                                                    true,
                                                                    true,
                                                                    true,
                                                                    false)),
                                                                    EmptyString))))))))))))))
                                                                    ty
                                                                    then 
                                                                    (match r with
                                                                    | [] ->
                                                                    None
                                                                    | v :: l ->
                                                                    (match l with
                                                                    | [] ->
                                                                    None
                                                                    | w :: l0 ->
                                                                    (match l0 with
                                                                    | [] ->
                                                                    if 
                                                                    keys_ok r
                                                                    ((String
                                                                    ((Ascii
                                                                    (false,
                                                                    true,
                                                                    true,
                                                                    false,
                                                                    true,
                                                                    true,
                                                                    true,
                                                                    false)),
                                                                    (String
                                                                    ((Ascii
                                                                    (true,
                                                                    false,
                                                                    false,
                                                                    false,
                                                                    false,
                                                                    true,
                                                                    true,
                                                                    false)),
                                                                    (String
                                                                    ((Ascii
                                                                    (false,
                                                                    false,
                                                                    true,
                                                                    true,
                                                                    false,
                                                                    true,
                                                                    true,
                                                                    false)),
                                                                    (String
                                                                    ((Ascii
                                                                    (true,
                                                                    false,
                                                                    true,
                                                                    false,
                                                                    true,
                                                                    true,
                                                                    true,
                                                                    false)),
                                                                    (String
                                                                    ((Ascii
                                                                    (true,
                                                                    false,
                                                                    true,
                                                                    false,
                                                                    false,
                                                                    true,
                                                                    true,
                                                                    false)),
                                                                    EmptyString)))))))))) :: ((String
                                                                    ((Ascii
                                                                    (false,
                                                                    true,
                                                                    false,
                                                                    false,
                                                                    true,
                                                                    true,
                                                                    true,
                                                                    false)),
                                                                    (String
                                                                    ((Ascii
                                                                    (true,
                                                                    false,
                                                                    false,
                                                                    false,
                                                                    false,
                                                                    true,
                                                                    true,
                                                                    false)),
                                                                    (String
                                                                    ((Ascii
                                                                    (true,
                                                                    true,
                                                                    true,
                                                                    false,
                                                                    true,
                                                                    true,
                                                                    true,
                                                                    false)),
                                                                    EmptyString)))))) :: []))
                                                                    then 
                                                                    (match 
                                                                    as_str
                                                                    (fval v) with
                                                                    | Some v' ->
                                                                    (match 
                                                                    as_str
                                                                    (fval w) with
                                                                    | Some w' ->
                                                                    Some
                                                                    (JText
                                                                    (v', w'))
                                                                    | None ->
                                                                    None)
                                                                    | None ->
                                                                    None)
                                                                    else None
                                                                    | _ :: _ ->
                                                                    None)))
                                                                    else 
                                                                    if 
                                                                    sq
                                                                    (String
                                                                    ((Ascii
                                                                    (false,
                                                                    true,
                                                                    false,
                                                                    true,
                                                                    false,
                                                                    false,
                                                                    true,
                                                                    false)),
                                                                    (String
                                                                    ((Ascii
                                                                    (true,
                                                                    true,
                                                                    false,
                                                                    false,
                                                                    true,
                                                                    false,
                                                                    true,
                                                                    false)),
                                                                    (String
                                                                    ((Ascii
                                                                    (false,
                                                                    false,
                                                                    false,
                                                                    true,
                                                                    true,
                                                                    false,
                                                                    true,
                                                                    false)),
                                                                    (String
                                                                    ((Ascii
                                                                    (true,
                                                                    true,
                                                                    false,
                                                                    false,
                                                                    true,
                                                                    false,
                                                                    true,
                                                                    false)),
                                                                    (String
                                                                    ((Ascii
                                                                    (false,
                                                                    false,
                                                                    false,
                                                                    false,
                                                                    true,
                                                                    true,
                                                                    true,
                                                                    false)),
                                                                    (String
                                                                    ((Ascii
                                                                    (false,
                                                                    true,
                                                                    false,
                                                                    false,
                                                                    true,
                                                                    true,
                                                                    true,
                                                                    false)),
                                                                    (String
                                                                    ((Ascii
                                                                    (true,
                                                                    false,
                                                                    true,
                                                                    false,
                                                                    false,
                                                                    true,
                                                                    true,
                                                                    false)),
                                                                    (String
                                                                    ((Ascii
                                                                    (true,
                                                                    false,
                                                                    false,
                                                                    false,
                                                                    false,
                                                                    true,
                                                                    true,
                                                                    false)),
                                                                    (String
                                                                    ((Ascii
                                                                    (false,
                                                                    false,
                                                                    true,
                                                                    false,
                                                                    false,
                                                                    true,
                                                                    true,
                                                                    false)),
                                                                    (String
                                                                    ((Ascii
                                                                    (true,
                                                                    true,
                                                                    false,
                                                                    false,
                                                                    false,
                                                                    false,
                                                                    true,
                                                                    false)),
                                                                    (String
                                                                    ((Ascii
                                                                    (false,
                                                                    false,
                                                                    false,
                                                                    true,
                                                                    false,
                                                                    true,
                                                                    true,
                                                                    false)),
                                                                    (String
                                                                    ((Ascii
                                                                    (true,
                                                                    false,
                                                                    false,
                                                                    true,
                                                                    false,
                                                                    true,
                                                                    true,
                                                                    false)),
                                                                    (String
                                                                    ((Ascii
                                                                    (false,
                                                                    false,
                                                                    true,
                                                                    true,
                                                                    false,
                                                                    true,
                                                                    true,
                                                                    false)),
                                                                    (String
                                                                    ((Ascii
                                                                    (false,
                                                                    false,
                                                                    true,
                                                                    false,
                                                                    false,
                                                                    true,
                                                                    true,
                                                                    false)),
                                                                    EmptyString))))))))))))))))))))))))))))
                                                                    ty
                                                                    then 
                                                                    (match r with
                                                                    | [] ->
                                                                    None
                                                                    | e :: l ->
                                                                    (match l with
                                                                    | [] ->
                                                                    if 
                                                                    keys_ok r
                                                                    ((String
                                                                    ((Ascii
                                                                    (true,
                                                                    false,
                                                                    true,
                                                                    false,
                                                                    false,
                                                                    true,
                                                                    true,
                                                                    false)),
                                                                    (String
                                                                    ((Ascii
                                                                    (false,
                                                                    false,
                                                                    false,
                                                                    true,
                                                                    true,
                                                                    true,
                                                                    true,
                                                                    false)),
                                                                    (String
                                                                    ((Ascii
                                                                    (false,
                                                                    false,
                                                                    false,
                                                                    false,
                                                                    true,
                                                                    true,
                                                                    true,
                                                                    false)),
                                                                    (String
                                                                    ((Ascii
                                                                    (false,
                                                                    true,
                                                                    false,
                                                                    false,
                                                                    true,
                                                                    true,
                                                                    true,
                                                                    false)),
                                                                    (String
                                                                    ((Ascii
                                                                    (true,
                                                                    false,
                                                                    true,
                                                                    false,
                                                                    false,
                                                                    true,
                                                                    true,
                                                                    false)),
                                                                    (String
                                                                    ((Ascii
                                                                    (true,
                                                                    true,
                                                                    false,
                                                                    false,
                                                                    true,
                                                                    true,
                                                                    true,
                                                                    false)),
                                                                    (String
                                                                    ((Ascii
                                                                    (true,
                                                                    true,
                                                                    false,
                                                                    false,
                                                                    true,
                                                                    true,
                                                                    true,
                                                                    false)),
                                                                    (String
                                                                    ((Ascii
                                                                    (true,
                                                                    false,
                                                                    false,
                                                                    true,
                                                                    false,
                                                                    true,
                                                                    true,
                                                                    false)),
                                                                    (String
                                                                    ((Ascii
                                                                    (true,
                                                                    true,
                                                                    true,
                                                                    true,
                                                                    false,
                                                                    true,
                                                                    true,
                                                                    false)),
                                                                    (String
                                                                    ((Ascii
                                                                    (false,
                                                                    true,
                                                                    true,
                                                                    true,
                                                                    false,
                                                                    true,
                                                                    true,
                                                                    false)),
                                                                    EmptyString)))))))))))))))))))) :: [])
                                                                    then 
                                                                    Some
                                                                    (JSpreadChild
                                                                    (fval e))
                                                                    else None
                                                                    | _ :: _ ->
                                                                    None))
                                                                    else None

(** val classify : node list -> node **)

let classify fs = match fs with
| [] -> NObj fs
| n :: r ->
  (match n with
   | Field (ks, sp) ->
     (match sp with
      | NScalar j ->
        (match j with
         | JStr ty ->
           if sq (String ((Ascii (false, false, true, false, true, true,
                true, false)), (String ((Ascii (true, false, false, true,
                true, true, true, false)), (String ((Ascii (false, false,
                false, false, true, true, true, false)), (String ((Ascii
                (true, false, true, false, false, true, true, false)),
                EmptyString)))))))) ks
           then (match classify_typed ty r with
                 | Some n0 -> n0
                 | None -> NObj fs)
           else NObj fs
         | JArr _ ->
           (match r with
            | [] -> NObj fs
            | n0 :: l0 ->
              (match n0 with
               | Field (ke, e) ->
                 (match l0 with
                  | [] ->
                    if (&&)
                         (sq (String ((Ascii (true, true, false, false, true,
                           true, true, false)), (String ((Ascii (false,
                           false, false, false, true, true, true, false)),
                           (String ((Ascii (false, true, false, false, true,
                           true, true, false)), (String ((Ascii (true, false,
                           true, false, false, true, true, false)), (String
                           ((Ascii (true, false, false, false, false, true,
                           true, false)), (String ((Ascii (false, false,
                           true, false, false, true, true, false)),
                           EmptyString)))))))))))) ks)
                         (sq (String ((Ascii (true, false, true, false,
                           false, true, true, false)), (String ((Ascii
                           (false, false, false, true, true, true, true,
                           false)), (String ((Ascii (false, false, false,
                           false, true, true, true, false)), (String ((Ascii
                           (false, true, false, false, true, true, true,
                           false)), (String ((Ascii (true, false, true,
                           false, false, true, true, false)), (String ((Ascii
                           (true, true, false, false, true, true, true,
                           false)), (String ((Ascii (true, true, false,
                           false, true, true, true, false)), (String ((Ascii
                           (true, false, false, true, false, true, true,
                           false)), (String ((Ascii (true, true, true, true,
                           false, true, true, false)), (String ((Ascii
                           (false, true, true, true, false, true, true,
                           false)), EmptyString)))))))))))))))))))) ke)
                    then (match is_null_or_true sp with
                          | Some b -> Elem (b, e)
                          | None -> NObj fs)
                    else NObj fs
                  | _ :: _ -> NObj fs)
               | _ -> NObj fs))
         | JObj _ ->
           (match r with
            | [] -> NObj fs
            | n0 :: l0 ->
              (match n0 with
               | Field (ke, e) ->
                 (match l0 with
                  | [] ->
                    if (&&)
                         (sq (String ((Ascii (true, true, false, false, true,
                           true, true, false)), (String ((Ascii (false,
                           false, false, false, true, true, true, false)),
                           (String ((Ascii (false, true, false, false, true,
                           true, true, false)), (String ((Ascii (true, false,
                           true, false, false, true, true, false)), (String
                           ((Ascii (true, false, false, false, false, true,
                           true, false)), (String ((Ascii (false, false,
                           true, false, false, true, true, false)),
                           EmptyString)))))))))))) ks)
                         (sq (String ((Ascii (true, false, true, false,
                           false, true, true, false)), (String ((Ascii
                           (false, false, false, true, true, true, true,
                           false)), (String ((Ascii (false, false, false,
                           false, true, true, true, false)), (String ((Ascii
                           (false, true, false, false, true, true, true,
                           false)), (String ((Ascii (true, false, true,
                           false, false, true, true, false)), (String ((Ascii
                           (true, true, false, false, true, true, true,
                           false)), (String ((Ascii (true, true, false,
                           false, true, true, true, false)), (String ((Ascii
                           (true, false, false, true, false, true, true,
                           false)), (String ((Ascii (true, true, true, true,
                           false, true, true, false)), (String ((Ascii
                           (false, true, true, true, false, true, true,
                           false)), EmptyString)))))))))))))))))))) ke)
                    then (match is_null_or_true sp with
                          | Some b -> Elem (b, e)
                          | None -> NObj fs)
                    else NObj fs
                  | _ :: _ -> NObj fs)
               | _ -> NObj fs))
         | _ ->
           (match r with
            | [] -> NObj fs
            | n0 :: l ->
              (match n0 with
               | Field (ke, e) ->
                 (match l with
                  | [] ->
                    if (&&)
                         (sq (String ((Ascii (true, true, false, false, true,
                           true, true, false)), (String ((Ascii (false,
                           false, false, false, true, true, true, false)),
                           (String ((Ascii (false, true, false, false, true,
                           true, true, false)), (String ((Ascii (true, false,
                           true, false, false, true, true, false)), (String
                           ((Ascii (true, false, false, false, false, true,
                           true, false)), (String ((Ascii (false, false,
                           true, false, false, true, true, false)),
                           EmptyString)))))))))))) ks)
                         (sq (String ((Ascii (true, false, true, false,
                           false, true, true, false)), (String ((Ascii
                           (false, false, false, true, true, true, true,
                           false)), (String ((Ascii (false, false, false,
                           false, true, true, true, false)), (String ((Ascii
                           (false, true, false, false, true, true, true,
                           false)), (String ((Ascii (true, false, true,
                           false, false, true, true, false)), (String ((Ascii
                           (true, true, false, false, true, true, true,
                           false)), (String ((Ascii (true, true, false,
                           false, true, true, true, false)), (String ((Ascii
                           (true, false, false, true, false, true, true,
                           false)), (String ((Ascii (true, true, true, true,
                           false, true, true, false)), (String ((Ascii
                           (false, true, true, true, false, true, true,
                           false)), EmptyString)))))))))))))))))))) ke)
                    then (match is_null_or_true sp with
                          | Some b -> Elem (b, e)
                          | None -> NObj fs)
                    else NObj fs
                  | _ :: _ -> NObj fs)
               | _ -> NObj fs)))
      | NArr _ ->
        (match r with
         | [] -> NObj fs
         | n0 :: l0 ->
           (match n0 with
            | Field (ke, e) ->
              (match l0 with
               | [] ->
                 if (&&)
                      (sq (String ((Ascii (true, true, false, false, true,
                        true, true, false)), (String ((Ascii (false, false,
                        false, false, true, true, true, false)), (String
                        ((Ascii (false, true, false, false, true, true, true,
                        false)), (String ((Ascii (true, false, true, false,
                        false, true, true, false)), (String ((Ascii (true,
                        false, false, false, false, true, true, false)),
                        (String ((Ascii (false, false, true, false, false,
                        true, true, false)), EmptyString)))))))))))) ks)
                      (sq (String ((Ascii (true, false, true, false, false,
                        true, true, false)), (String ((Ascii (false, false,
                        false, true, true, true, true, false)), (String
                        ((Ascii (false, false, false, false, true, true,
                        true, false)), (String ((Ascii (false, true, false,
                        false, true, true, true, false)), (String ((Ascii
                        (true, false, true, false, false, true, true,
                        false)), (String ((Ascii (true, true, false, false,
                        true, true, true, false)), (String ((Ascii (true,
                        true, false, false, true, true, true, false)),
                        (String ((Ascii (true, false, false, true, false,
                        true, true, false)), (String ((Ascii (true, true,
                        true, true, false, true, true, false)), (String
                        ((Ascii (false, true, true, true, false, true, true,
                        false)), EmptyString)))))))))))))))))))) ke)
                 then (match is_null_or_true sp with
                       | Some b -> Elem (b, e)
                       | None -> NObj fs)
                 else NObj fs
               | _ :: _ -> NObj fs)
            | _ -> NObj fs))
      | NObj _ ->
        (match r with
         | [] -> NObj fs
         | n0 :: l0 ->
           (match n0 with
            | Field (ke, e) ->
              (match l0 with
               | [] ->
                 if (&&)
                      (sq (String ((Ascii (true, true, false, false, true,
                        true, true, false)), (String ((Ascii (false, false,
                        false, false, true, true, true, false)), (String
                        ((Ascii (false, true, false, false, true, true, true,
                        false)), (String ((Ascii (true, false, true, false,
                        false, true, true, false)), (String ((Ascii (true,
                        false, false, false, false, true, true, false)),
                        (String ((Ascii (false, false, true, false, false,
                        true, true, false)), EmptyString)))))))))))) ks)
                      (sq (String ((Ascii (true, false, true, false, false,
                        true, true, false)), (String ((Ascii (false, false,
                        false, true, true, true, true, false)), (String
                        ((Ascii (false, false, false, false, true, true,
                        true, false)), (String ((Ascii (false, true, false,
                        false, true, true, true, false)), (String ((Ascii
                        (true, false, true, false, false, true, true,
                        false)), (String ((Ascii (true, true, false, false,
                        true, true, true, false)), (String ((Ascii (true,
                        true, false, false, true, true, true, false)),
                        (String ((Ascii (true, false, false, true, false,
                        true, true, false)), (String ((Ascii (true, true,
                        true, true, false, true, true, false)), (String
                        ((Ascii (false, true, true, true, false, true, true,
                        false)), EmptyString)))))))))))))))))))) ke)
                 then (match is_null_or_true sp with
                       | Some b -> Elem (b, e)
                       | None -> NObj fs)
                 else NObj fs
               | _ :: _ -> NObj fs)
            | _ -> NObj fs))
      | Assign (_, _, _) ->
        (match r with
         | [] -> NObj fs
         | n0 :: l0 ->
           (match n0 with
            | Field (ke, e) ->
              (match l0 with
               | [] ->
                 if (&&)
                      (sq (String ((Ascii (true, true, false, false, true,
                        true, true, false)), (String ((Ascii (false, false,
                        false, false, true, true, true, false)), (String
                        ((Ascii (false, true, false, false, true, true, true,
                        false)), (String ((Ascii (true, false, true, false,
                        false, true, true, false)), (String ((Ascii (true,
                        false, false, false, false, true, true, false)),
                        (String ((Ascii (false, false, true, false, false,
                        true, true, false)), EmptyString)))))))))))) ks)
                      (sq (String ((Ascii (true, false, true, false, false,
                        true, true, false)), (String ((Ascii (false, false,
                        false, true, true, true, true, false)), (String
                        ((Ascii (false, false, false, false, true, true,
                        true, false)), (String ((Ascii (false, true, false,
                        false, true, true, true, false)), (String ((Ascii
                        (true, false, true, false, false, true, true,
                        false)), (String ((Ascii (true, true, false, false,
                        true, true, true, false)), (String ((Ascii (true,
                        true, false, false, true, true, true, false)),
                        (String ((Ascii (true, false, false, true, false,
                        true, true, false)), (String ((Ascii (true, true,
                        true, true, false, true, true, false)), (String
                        ((Ascii (false, true, true, true, false, true, true,
                        false)), EmptyString)))))))))))))))))))) ke)
                 then (match is_null_or_true sp with
                       | Some b -> Elem (b, e)
                       | None -> NObj fs)
                 else NObj fs
               | _ :: _ -> NObj fs)
            | _ -> NObj fs))
      | Bin (_, _, _) ->
        (match r with
         | [] -> NObj fs
         | n0 :: l0 ->
           (match n0 with
            | Field (ke, e) ->
              (match l0 with
               | [] ->
                 if (&&)
                      (sq (String ((Ascii (true, true, false, false, true,
                        true, true, false)), (String ((Ascii (false, false,
                        false, false, true, true, true, false)), (String
                        ((Ascii (false, true, false, false, true, true, true,
                        false)), (String ((Ascii (true, false, true, false,
                        false, true, true, false)), (String ((Ascii (true,
                        false, false, false, false, true, true, false)),
                        (String ((Ascii (false, false, true, false, false,
                        true, true, false)), EmptyString)))))))))))) ks)
                      (sq (String ((Ascii (true, false, true, false, false,
                        true, true, false)), (String ((Ascii (false, false,
                        false, true, true, true, true, false)), (String
                        ((Ascii (false, false, false, false, true, true,
                        true, false)), (String ((Ascii (false, true, false,
                        false, true, true, true, false)), (String ((Ascii
                        (true, false, true, false, false, true, true,
                        false)), (String ((Ascii (true, true, false, false,
                        true, true, true, false)), (String ((Ascii (true,
                        true, false, false, true, true, true, false)),
                        (String ((Ascii (true, false, false, true, false,
                        true, true, false)), (String ((Ascii (true, true,
                        true, true, false, true, true, false)), (String
                        ((Ascii (false, true, true, true, false, true, true,
                        false)), EmptyString)))))))))))))))))))) ke)
                 then (match is_null_or_true sp with
                       | Some b -> Elem (b, e)
                       | None -> NObj fs)
                 else NObj fs
               | _ :: _ -> NObj fs)
            | _ -> NObj fs))
      | _ ->
        (match r with
         | [] -> NObj fs
         | n0 :: l ->
           (match n0 with
            | Field (ke, e) ->
              (match l with
               | [] ->
                 if (&&)
                      (sq (String ((Ascii (true, true, false, false, true,
                        true, true, false)), (String ((Ascii (false, false,
                        false, false, true, true, true, false)), (String
                        ((Ascii (false, true, false, false, true, true, true,
                        false)), (String ((Ascii (true, false, true, false,
                        false, true, true, false)), (String ((Ascii (true,
                        false, false, false, false, true, true, false)),
                        (String ((Ascii (false, false, true, false, false,
                        true, true, false)), EmptyString)))))))))))) ks)
                      (sq (String ((Ascii (true, false, true, false, false,
                        true, true, false)), (String ((Ascii (false, false,
                        false, true, true, true, true, false)), (String
                        ((Ascii (false, false, false, false, true, true,
                        true, false)), (String ((Ascii (false, true, false,
                        false, true, true, true, false)), (String ((Ascii
                        (true, false, true, false, false, true, true,
                        false)), (String ((Ascii (true, true, false, false,
                        true, true, true, false)), (String ((Ascii (true,
                        true, false, false, true, true, true, false)),
                        (String ((Ascii (true, false, false, true, false,
                        true, true, false)), (String ((Ascii (true, true,
                        true, true, false, true, true, false)), (String
                        ((Ascii (false, true, true, true, false, true, true,
                        false)), EmptyString)))))))))))))))))))) ke)
                 then (match is_null_or_true sp with
                       | Some b -> Elem (b, e)
                       | None -> NObj fs)
                 else NObj fs
               | _ :: _ -> NObj fs)
            | _ -> NObj fs)))
   | _ -> NObj fs)

(** val refine : node -> node **)

let rec refine n = match n with
| NArr l -> NArr (map refine l)
| NObj l -> classify (map refine l)
| Field (k, v) -> Field (k, (refine v))
| _ -> n

(** val dec : jv -> node **)

let dec j =
  refine (dec0 j)

(** val jk : string -> jv -> str * jv **)

let jk k v =
  ((s_ k), v)

(** val jty : string -> str * jv **)

let jty t =
  ((s_ (String ((Ascii (false, false, true, false, true, true, true, false)),
     (String ((Ascii (true, false, false, true, true, true, true, false)),
     (String ((Ascii (false, false, false, false, true, true, true, false)),
     (String ((Ascii (true, false, true, false, false, true, true, false)),
     EmptyString))))))))), (JStr (s_ t)))

(** val jN : coq_N -> jv **)

let jN n =
  JNum (dec_of_N n)

(** val enc : node -> jv **)

let rec enc n =
  let encl =
    let rec encl = function
    | [] -> []
    | x :: r -> (enc x) :: (encl r)
    in encl
  in
  (match n with
   | NScalar j -> j
   | NArr l -> JArr (encl l)
   | NObj l ->
     JObj
       (let rec go = function
        | [] -> []
        | x :: r ->
          (match x with
           | Field (k, v) -> (k, (enc v)) :: (go r)
           | _ -> ([], (enc x)) :: (go r))
        in go l)
   | Field (k, v) -> JObj ((k, (enc v)) :: [])
   | Ident (v, c, o) ->
     JObj
       ((jty (String ((Ascii (true, false, false, true, false, false, true,
          false)), (String ((Ascii (false, false, true, false, false, true,
          true, false)), (String ((Ascii (true, false, true, false, false,
          true, true, false)), (String ((Ascii (false, true, true, true,
          false, true, true, false)), (String ((Ascii (false, false, true,
          false, true, true, true, false)), (String ((Ascii (true, false,
          false, true, false, true, true, false)), (String ((Ascii (false,
          true, true, false, false, true, true, false)), (String ((Ascii
          (true, false, false, true, false, true, true, false)), (String
          ((Ascii (true, false, true, false, false, true, true, false)),
          (String ((Ascii (false, true, false, false, true, true, true,
          false)), EmptyString))))))))))))))))))))) :: ((jk (String ((Ascii
                                                          (true, true, false,
                                                          false, false, true,
                                                          true, false)),
                                                          (String ((Ascii
                                                          (false, false,
                                                          true, false, true,
                                                          true, true,
                                                          false)), (String
                                                          ((Ascii (false,
                                                          false, false, true,
                                                          true, true, true,
                                                          false)), (String
                                                          ((Ascii (false,
                                                          false, true, false,
                                                          true, true, true,
                                                          false)),
                                                          EmptyString))))))))
                                                          (jN c)) :: (
       (jk (String ((Ascii (false, true, true, false, true, true, true,
         false)), (String ((Ascii (true, false, false, false, false, true,
         true, false)), (String ((Ascii (false, false, true, true, false,
         true, true, false)), (String ((Ascii (true, false, true, false,
         true, true, true, false)), (String ((Ascii (true, false, true,
         false, false, true, true, false)), EmptyString)))))))))) (JStr v)) :: (
       (jk (String ((Ascii (true, true, true, true, false, true, true,
         false)), (String ((Ascii (false, false, false, false, true, true,
         true, false)), (String ((Ascii (false, false, true, false, true,
         true, true, false)), (String ((Ascii (true, false, false, true,
         false, true, true, false)), (String ((Ascii (true, true, true, true,
         false, true, true, false)), (String ((Ascii (false, true, true,
         true, false, true, true, false)), (String ((Ascii (true, false,
         false, false, false, true, true, false)), (String ((Ascii (false,
         false, true, true, false, true, true, false)),
         EmptyString)))))))))))))))) (JBool o)) :: []))))
   | BIdent (v, c, o, t) ->
     JObj
       ((jty (String ((Ascii (true, false, false, true, false, false, true,
          false)), (String ((Ascii (false, false, true, false, false, true,
          true, false)), (String ((Ascii (true, false, true, false, false,
          true, true, false)), (String ((Ascii (false, true, true, true,
          false, true, true, false)), (String ((Ascii (false, false, true,
          false, true, true, true, false)), (String ((Ascii (true, false,
          false, true, false, true, true, false)), (String ((Ascii (false,
          true, true, false, false, true, true, false)), (String ((Ascii
          (true, false, false, true, false, true, true, false)), (String
          ((Ascii (true, false, true, false, false, true, true, false)),
          (String ((Ascii (false, true, false, false, true, true, true,
          false)), EmptyString))))))))))))))))))))) :: ((jk (String ((Ascii
                                                          (true, true, false,
                                                          false, false, true,
                                                          true, false)),
                                                          (String ((Ascii
                                                          (false, false,
                                                          true, false, true,
                                                          true, true,
                                                          false)), (String
                                                          ((Ascii (false,
                                                          false, false, true,
                                                          true, true, true,
                                                          false)), (String
                                                          ((Ascii (false,
                                                          false, true, false,
                                                          true, true, true,
                                                          false)),
                                                          EmptyString))))))))
                                                          (jN c)) :: (
       (jk (String ((Ascii (false, true, true, false, true, true, true,
         false)), (String ((Ascii (true, false, false, false, false, true,
         true, false)), (String ((Ascii (false, false, true, true, false,
         true, true, false)), (String ((Ascii (true, false, true, false,
         true, true, true, false)), (String ((Ascii (true, false, true,
         false, false, true, true, false)), EmptyString)))))))))) (JStr v)) :: (
       (jk (String ((Ascii (true, true, true, true, false, true, true,
         false)), (String ((Ascii (false, false, false, false, true, true,
         true, false)), (String ((Ascii (false, false, true, false, true,
         true, true, false)), (String ((Ascii (true, false, false, true,
         false, true, true, false)), (String ((Ascii (true, true, true, true,
         false, true, true, false)), (String ((Ascii (false, true, true,
         true, false, true, true, false)), (String ((Ascii (true, false,
         false, false, false, true, true, false)), (String ((Ascii (false,
         false, true, true, false, true, true, false)),
         EmptyString)))))))))))))))) (JBool o)) :: ((jk (String ((Ascii
                                                      (false, false, true,
                                                      false, true, true,
                                                      true, false)), (String
                                                      ((Ascii (true, false,
                                                      false, true, true,
                                                      true, true, false)),
                                                      (String ((Ascii (false,
                                                      false, false, false,
                                                      true, true, true,
                                                      false)), (String
                                                      ((Ascii (true, false,
                                                      true, false, false,
                                                      true, true, false)),
                                                      (String ((Ascii (true,
                                                      false, false, false,
                                                      false, false, true,
                                                      false)), (String
                                                      ((Ascii (false, true,
                                                      true, true, false,
                                                      true, true, false)),
                                                      (String ((Ascii (false,
                                                      true, true, true,
                                                      false, true, true,
                                                      false)), (String
                                                      ((Ascii (true, true,
                                                      true, true, false,
                                                      true, true, false)),
                                                      (String ((Ascii (false,
                                                      false, true, false,
                                                      true, true, true,
                                                      false)), (String
                                                      ((Ascii (true, false,
                                                      false, false, false,
                                                      true, true, false)),
                                                      (String ((Ascii (false,
                                                      false, true, false,
                                                      true, true, true,
                                                      false)), (String
                                                      ((Ascii (true, false,
                                                      false, true, false,
                                                      true, true, false)),
                                                      (String ((Ascii (true,
                                                      true, true, true,
                                                      false, true, true,
                                                      false)), (String
                                                      ((Ascii (false, true,
                                                      true, true, false,
                                                      true, true, false)),
                                                      EmptyString))))))))))))))))))))))))))))
                                                      (enc t)) :: [])))))
   | IdName v ->
     JObj
       ((jty (String ((Ascii (true, false, false, true, false, false, true,
          false)), (String ((Ascii (false, false, true, false, false, true,
          true, false)), (String ((Ascii (true, false, true, false, false,
          true, true, false)), (String ((Ascii (false, true, true, true,
          false, true, true, false)), (String ((Ascii (false, false, true,
          false, true, true, true, false)), (String ((Ascii (true, false,
          false, true, false, true, true, false)), (String ((Ascii (false,
          true, true, false, false, true, true, false)), (String ((Ascii
          (true, false, false, true, false, true, true, false)), (String
          ((Ascii (true, false, true, false, false, true, true, false)),
          (String ((Ascii (false, true, false, false, true, true, true,
          false)), EmptyString))))))))))))))))))))) :: ((jk (String ((Ascii
                                                          (false, true, true,
                                                          false, true, true,
                                                          true, false)),
                                                          (String ((Ascii
                                                          (true, false,
                                                          false, false,
                                                          false, true, true,
                                                          false)), (String
                                                          ((Ascii (false,
                                                          false, true, true,
                                                          false, true, true,
                                                          false)), (String
                                                          ((Ascii (true,
                                                          false, true, false,
                                                          true, true, true,
                                                          false)), (String
                                                          ((Ascii (true,
                                                          false, true, false,
                                                          false, true, true,
                                                          false)),
                                                          EmptyString))))))))))
                                                          (JStr v)) :: []))
   | Str (v, w) ->
     JObj
       ((jty (String ((Ascii (true, true, false, false, true, false, true,
          false)), (String ((Ascii (false, false, true, false, true, true,
          true, false)), (String ((Ascii (false, true, false, false, true,
          true, true, false)), (String ((Ascii (true, false, false, true,
          false, true, true, false)), (String ((Ascii (false, true, true,
          true, false, true, true, false)), (String ((Ascii (true, true,
          true, false, false, true, true, false)), (String ((Ascii (false,
          false, true, true, false, false, true, false)), (String ((Ascii
          (true, false, false, true, false, true, true, false)), (String
          ((Ascii (false, false, true, false, true, true, true, false)),
          (String ((Ascii (true, false, true, false, false, true, true,
          false)), (String ((Ascii (false, true, false, false, true, true,
          true, false)), (String ((Ascii (true, false, false, false, false,
          true, true, false)), (String ((Ascii (false, false, true, true,
          false, true, true, false)), EmptyString))))))))))))))))))))))))))) :: (
       (jk (String ((Ascii (false, true, true, false, true, true, true,
         false)), (String ((Ascii (true, false, false, false, false, true,
         true, false)), (String ((Ascii (false, false, true, true, false,
         true, true, false)), (String ((Ascii (true, false, true, false,
         true, true, true, false)), (String ((Ascii (true, false, true,
         false, false, true, true, false)), EmptyString)))))))))) (JStr v)) :: (
       (jk (String ((Ascii (false, true, false, false, true, true, true,
         false)), (String ((Ascii (true, false, false, false, false, true,
         true, false)), (String ((Ascii (true, true, true, false, true, true,
         true, false)), EmptyString)))))) (enc w)) :: [])))
   | Num (v, w) ->
     JObj
       ((jty (String ((Ascii (false, true, true, true, false, false, true,
          false)), (String ((Ascii (true, false, true, false, true, true,
          true, false)), (String ((Ascii (true, false, true, true, false,
          true, true, false)), (String ((Ascii (true, false, true, false,
          false, true, true, false)), (String ((Ascii (false, true, false,
          false, true, true, true, false)), (String ((Ascii (true, false,
          false, true, false, true, true, false)), (String ((Ascii (true,
          true, false, false, false, true, true, false)), (String ((Ascii
          (false, false, true, true, false, false, true, false)), (String
          ((Ascii (true, false, false, true, false, true, true, false)),
          (String ((Ascii (false, false, true, false, true, true, true,
          false)), (String ((Ascii (true, false, true, false, false, true,
          true, false)), (String ((Ascii (false, true, false, false, true,
          true, true, false)), (String ((Ascii (true, false, false, false,
          false, true, true, false)), (String ((Ascii (false, false, true,
          true, false, true, true, false)),
          EmptyString))))))))))))))))))))))))))))) :: ((jk (String ((Ascii
                                                         (false, true, true,
                                                         false, true, true,
                                                         true, false)),
                                                         (String ((Ascii
                                                         (true, false, false,
                                                         false, false, true,
                                                         true, false)),
                                                         (String ((Ascii
                                                         (false, false, true,
                                                         true, false, true,
                                                         true, false)),
                                                         (String ((Ascii
                                                         (true, false, true,
                                                         false, true, true,
                                                         true, false)),
                                                         (String ((Ascii
                                                         (true, false, true,
                                                         false, false, true,
                                                         true, false)),
                                                         EmptyString))))))))))
                                                         (JNum v)) :: (
       (jk (String ((Ascii (false, true, false, false, true, true, true,
         false)), (String ((Ascii (true, false, false, false, false, true,
         true, false)), (String ((Ascii (true, true, true, false, true, true,
         true, false)), EmptyString)))))) (enc w)) :: [])))
   | Bool b ->
     JObj
       ((jty (String ((Ascii (false, true, false, false, false, false, true,
          false)), (String ((Ascii (true, true, true, true, false, true,
          true, false)), (String ((Ascii (true, true, true, true, false,
          true, true, false)), (String ((Ascii (false, false, true, true,
          false, true, true, false)), (String ((Ascii (true, false, true,
          false, false, true, true, false)), (String ((Ascii (true, false,
          false, false, false, true, true, false)), (String ((Ascii (false,
          true, true, true, false, true, true, false)), (String ((Ascii
          (false, false, true, true, false, false, true, false)), (String
          ((Ascii (true, false, false, true, false, true, true, false)),
          (String ((Ascii (false, false, true, false, true, true, true,
          false)), (String ((Ascii (true, false, true, false, false, true,
          true, false)), (String ((Ascii (false, true, false, false, true,
          true, true, false)), (String ((Ascii (true, false, false, false,
          false, true, true, false)), (String ((Ascii (false, false, true,
          true, false, true, true, false)),
          EmptyString))))))))))))))))))))))))))))) :: ((jk (String ((Ascii
                                                         (false, true, true,
                                                         false, true, true,
                                                         true, false)),
                                                         (String ((Ascii
                                                         (true, false, false,
                                                         false, false, true,
                                                         true, false)),
                                                         (String ((Ascii
                                                         (false, false, true,
                                                         true, false, true,
                                                         true, false)),
                                                         (String ((Ascii
                                                         (true, false, true,
                                                         false, true, true,
                                                         true, false)),
                                                         (String ((Ascii
                                                         (true, false, true,
                                                         false, false, true,
                                                         true, false)),
                                                         EmptyString))))))))))
                                                         (JBool b)) :: []))
   | Null ->
     JObj
       ((jty (String ((Ascii (false, true, true, true, false, false, true,
          false)), (String ((Ascii (true, false, true, false, true, true,
          true, false)), (String ((Ascii (false, false, true, true, false,
          true, true, false)), (String ((Ascii (false, false, true, true,
          false, true, true, false)), (String ((Ascii (false, false, true,
          true, false, false, true, false)), (String ((Ascii (true, false,
          false, true, false, true, true, false)), (String ((Ascii (false,
          false, true, false, true, true, true, false)), (String ((Ascii
          (true, false, true, false, false, true, true, false)), (String
          ((Ascii (false, true, false, false, true, true, true, false)),
          (String ((Ascii (true, false, false, false, false, true, true,
          false)), (String ((Ascii (false, false, true, true, false, true,
          true, false)), EmptyString))))))))))))))))))))))) :: [])
   | Arr l ->
     JObj
       ((jty (String ((Ascii (true, false, false, false, false, false, true,
          false)), (String ((Ascii (false, true, false, false, true, true,
          true, false)), (String ((Ascii (false, true, false, false, true,
          true, true, false)), (String ((Ascii (true, false, false, false,
          false, true, true, false)), (String ((Ascii (true, false, false,
          true, true, true, true, false)), (String ((Ascii (true, false,
          true, false, false, false, true, false)), (String ((Ascii (false,
          false, false, true, true, true, true, false)), (String ((Ascii
          (false, false, false, false, true, true, true, false)), (String
          ((Ascii (false, true, false, false, true, true, true, false)),
          (String ((Ascii (true, false, true, false, false, true, true,
          false)), (String ((Ascii (true, true, false, false, true, true,
          true, false)), (String ((Ascii (true, true, false, false, true,
          true, true, false)), (String ((Ascii (true, false, false, true,
          false, true, true, false)), (String ((Ascii (true, true, true,
          true, false, true, true, false)), (String ((Ascii (false, true,
          true, true, false, true, true, false)),
          EmptyString))))))))))))))))))))))))))))))) :: ((jk (String ((Ascii
                                                           (true, false,
                                                           true, false,
                                                           false, true, true,
                                                           false)), (String
                                                           ((Ascii (false,
                                                           false, true, true,
                                                           false, true, true,
                                                           false)), (String
                                                           ((Ascii (true,
                                                           false, true,
                                                           false, false,
                                                           true, true,
                                                           false)), (String
                                                           ((Ascii (true,
                                                           false, true, true,
                                                           false, true, true,
                                                           false)), (String
                                                           ((Ascii (true,
                                                           false, true,
                                                           false, false,
                                                           true, true,
                                                           false)), (String
                                                           ((Ascii (false,
                                                           true, true, true,
                                                           false, true, true,
                                                           false)), (String
                                                           ((Ascii (false,
                                                           false, true,
                                                           false, true, true,
                                                           true, false)),
                                                           (String ((Ascii
                                                           (true, true,
                                                           false, false,
                                                           true, true, true,
                                                           false)),
                                                           EmptyString))))))))))))))))
                                                           (JArr (encl l))) :: []))
   | Elem (s, e) ->
     JObj
       ((jk (String ((Ascii (true, true, false, false, true, true, true,
          false)), (String ((Ascii (false, false, false, false, true, true,
          true, false)), (String ((Ascii (false, true, false, false, true,
          true, true, false)), (String ((Ascii (true, false, true, false,
          false, true, true, false)), (String ((Ascii (true, false, false,
          false, false, true, true, false)), (String ((Ascii (false, false,
          true, false, false, true, true, false)), EmptyString))))))))))))
          (if s then JBool true else JNull)) :: ((jk (String ((Ascii (true,
                                                   false, true, false, false,
                                                   true, true, false)),
                                                   (String ((Ascii (false,
                                                   false, false, true, true,
                                                   true, true, false)),
                                                   (String ((Ascii (false,
                                                   false, false, false, true,
                                                   true, true, false)),
                                                   (String ((Ascii (false,
                                                   true, false, false, true,
                                                   true, true, false)),
                                                   (String ((Ascii (true,
                                                   false, true, false, false,
                                                   true, true, false)),
                                                   (String ((Ascii (true,
                                                   true, false, false, true,
                                                   true, true, false)),
                                                   (String ((Ascii (true,
                                                   true, false, false, true,
                                                   true, true, false)),
                                                   (String ((Ascii (true,
                                                   false, false, true, false,
                                                   true, true, false)),
                                                   (String ((Ascii (true,
                                                   true, true, true, false,
                                                   true, true, false)),
                                                   (String ((Ascii (false,
                                                   true, true, true, false,
                                                   true, true, false)),
                                                   EmptyString))))))))))))))))))))
                                                   (enc e)) :: []))
   | Hole -> JNull
   | Obj l ->
     JObj
       ((jty (String ((Ascii (true, true, true, true, false, false, true,
          false)), (String ((Ascii (false, true, false, false, false, true,
          true, false)), (String ((Ascii (false, true, false, true, false,
          true, true, false)), (String ((Ascii (true, false, true, false,
          false, true, true, false)), (String ((Ascii (true, true, false,
          false, false, true, true, false)), (String ((Ascii (false, false,
          true, false, true, true, true, false)), (String ((Ascii (true,
          false, true, false, false, false, true, false)), (String ((Ascii
          (false, false, false, true, true, true, true, false)), (String
          ((Ascii (false, false, false, false, true, true, true, false)),
          (String ((Ascii (false, true, false, false, true, true, true,
          false)), (String ((Ascii (true, false, true, false, false, true,
          true, false)), (String ((Ascii (true, true, false, false, true,
          true, true, false)), (String ((Ascii (true, true, false, false,
          true, true, true, false)), (String ((Ascii (true, false, false,
          true, false, true, true, false)), (String ((Ascii (true, true,
          true, true, false, true, true, false)), (String ((Ascii (false,
          true, true, true, false, true, true, false)),
          EmptyString))))))))))))))))))))))))))))))))) :: ((jk (String
                                                             ((Ascii (false,
                                                             false, false,
                                                             false, true,
                                                             true, true,
                                                             false)), (String
                                                             ((Ascii (false,
                                                             true, false,
                                                             false, true,
                                                             true, true,
                                                             false)), (String
                                                             ((Ascii (true,
                                                             true, true,
                                                             true, false,
                                                             true, true,
                                                             false)), (String
                                                             ((Ascii (false,
                                                             false, false,
                                                             false, true,
                                                             true, true,
                                                             false)), (String
                                                             ((Ascii (true,
                                                             false, true,
                                                             false, false,
                                                             true, true,
                                                             false)), (String
                                                             ((Ascii (false,
                                                             true, false,
                                                             false, true,
                                                             true, true,
                                                             false)), (String
                                                             ((Ascii (false,
                                                             false, true,
                                                             false, true,
                                                             true, true,
                                                             false)), (String
                                                             ((Ascii (true,
                                                             false, false,
                                                             true, false,
                                                             true, true,
                                                             false)), (String
                                                             ((Ascii (true,
                                                             false, true,
                                                             false, false,
                                                             true, true,
                                                             false)), (String
                                                             ((Ascii (true,
                                                             true, false,
                                                             false, true,
                                                             true, true,
                                                             false)),
                                                             EmptyString))))))))))))))))))))
                                                             (JArr (encl l))) :: []))
   | KV (k, v) ->
     JObj
       ((jty (String ((Ascii (true, true, false, true, false, false, true,
          false)), (String ((Ascii (true, false, true, false, false, true,
          true, false)), (String ((Ascii (true, false, false, true, true,
          true, true, false)), (String ((Ascii (false, true, true, false,
          true, false, true, false)), (String ((Ascii (true, false, false,
          false, false, true, true, false)), (String ((Ascii (false, false,
          true, true, false, true, true, false)), (String ((Ascii (true,
          false, true, false, true, true, true, false)), (String ((Ascii
          (true, false, true, false, false, true, true, false)), (String
          ((Ascii (false, false, false, false, true, false, true, false)),
          (String ((Ascii (false, true, false, false, true, true, true,
          false)), (String ((Ascii (true, true, true, true, false, true,
          true, false)), (String ((Ascii (false, false, false, false, true,
          true, true, false)), (String ((Ascii (true, false, true, false,
          false, true, true, false)), (String ((Ascii (false, true, false,
          false, true, true, true, false)), (String ((Ascii (false, false,
          true, false, true, true, true, false)), (String ((Ascii (true,
          false, false, true, true, true, true, false)),
          EmptyString))))))))))))))))))))))))))))))))) :: ((jk (String
                                                             ((Ascii (true,
                                                             true, false,
                                                             true, false,
                                                             true, true,
                                                             false)), (String
                                                             ((Ascii (true,
                                                             false, true,
                                                             false, false,
                                                             true, true,
                                                             false)), (String
                                                             ((Ascii (true,
                                                             false, false,
                                                             true, true,
                                                             true, true,
                                                             false)),
                                                             EmptyString))))))
                                                             (enc k)) :: (
       (jk (String ((Ascii (false, true, true, false, true, true, true,
         false)), (String ((Ascii (true, false, false, false, false, true,
         true, false)), (String ((Ascii (false, false, true, true, false,
         true, true, false)), (String ((Ascii (true, false, true, false,
         true, true, true, false)), (String ((Ascii (true, false, true,
         false, false, true, true, false)), EmptyString)))))))))) (enc v)) :: [])))
   | Computed e ->
     JObj
       ((jty (String ((Ascii (true, true, false, false, false, false, true,
          false)), (String ((Ascii (true, true, true, true, false, true,
          true, false)), (String ((Ascii (true, false, true, true, false,
          true, true, false)), (String ((Ascii (false, false, false, false,
          true, true, true, false)), (String ((Ascii (true, false, true,
          false, true, true, true, false)), (String ((Ascii (false, false,
          true, false, true, true, true, false)), (String ((Ascii (true,
          false, true, false, false, true, true, false)), (String ((Ascii
          (false, false, true, false, false, true, true, false)),
          EmptyString))))))))))))))))) :: ((jk (String ((Ascii (true, false,
                                             true, false, false, true, true,
                                             false)), (String ((Ascii (false,
                                             false, false, true, true, true,
                                             true, false)), (String ((Ascii
                                             (false, false, false, false,
                                             true, true, true, false)),
                                             (String ((Ascii (false, true,
                                             false, false, true, true, true,
                                             false)), (String ((Ascii (true,
                                             false, true, false, false, true,
                                             true, false)), (String ((Ascii
                                             (true, true, false, false, true,
                                             true, true, false)), (String
                                             ((Ascii (true, true, false,
                                             false, true, true, true,
                                             false)), (String ((Ascii (true,
                                             false, false, true, false, true,
                                             true, false)), (String ((Ascii
                                             (true, true, true, true, false,
                                             true, true, false)), (String
                                             ((Ascii (false, true, true,
                                             true, false, true, true,
                                             false)),
                                             EmptyString))))))))))))))))))))
                                             (enc e)) :: []))
   | Spread e ->
     JObj
       ((jty (String ((Ascii (true, true, false, false, true, false, true,
          false)), (String ((Ascii (false, false, false, false, true, true,
          true, false)), (String ((Ascii (false, true, false, false, true,
          true, true, false)), (String ((Ascii (true, false, true, false,
          false, true, true, false)), (String ((Ascii (true, false, false,
          false, false, true, true, false)), (String ((Ascii (false, false,
          true, false, false, true, true, false)), (String ((Ascii (true,
          false, true, false, false, false, true, false)), (String ((Ascii
          (false, false, true, true, false, true, true, false)), (String
          ((Ascii (true, false, true, false, false, true, true, false)),
          (String ((Ascii (true, false, true, true, false, true, true,
          false)), (String ((Ascii (true, false, true, false, false, true,
          true, false)), (String ((Ascii (false, true, true, true, false,
          true, true, false)), (String ((Ascii (false, false, true, false,
          true, true, true, false)), EmptyString))))))))))))))))))))))))))) :: (
       (jk (String ((Ascii (true, true, false, false, true, true, true,
         false)), (String ((Ascii (false, false, false, false, true, true,
         true, false)), (String ((Ascii (false, true, false, false, true,
         true, true, false)), (String ((Ascii (true, false, true, false,
         false, true, true, false)), (String ((Ascii (true, false, false,
         false, false, true, true, false)), (String ((Ascii (false, false,
         true, false, false, true, true, false)), EmptyString))))))))))))
         (JBool true)) :: ((jk (String ((Ascii (true, false, false, false,
                             false, true, true, false)), (String ((Ascii
                             (false, true, false, false, true, true, true,
                             false)), (String ((Ascii (true, true, true,
                             false, false, true, true, false)), (String
                             ((Ascii (true, false, true, false, true, true,
                             true, false)), (String ((Ascii (true, false,
                             true, true, false, true, true, false)), (String
                             ((Ascii (true, false, true, false, false, true,
                             true, false)), (String ((Ascii (false, true,
                             true, true, false, true, true, false)), (String
                             ((Ascii (false, false, true, false, true, true,
                             true, false)), (String ((Ascii (true, true,
                             false, false, true, true, true, false)),
                             EmptyString)))))))))))))))))) (enc e)) :: [])))
   | Call (s, c, f, a, t) ->
     JObj
       ((jty (String ((Ascii (true, true, false, false, false, false, true,
          false)), (String ((Ascii (true, false, false, false, false, true,
          true, false)), (String ((Ascii (false, false, true, true, false,
          true, true, false)), (String ((Ascii (false, false, true, true,
          false, true, true, false)), (String ((Ascii (true, false, true,
          false, false, false, true, false)), (String ((Ascii (false, false,
          false, true, true, true, true, false)), (String ((Ascii (false,
          false, false, false, true, true, true, false)), (String ((Ascii
          (false, true, false, false, true, true, true, false)), (String
          ((Ascii (true, false, true, false, false, true, true, false)),
          (String ((Ascii (true, true, false, false, true, true, true,
          false)), (String ((Ascii (true, true, false, false, true, true,
          true, false)), (String ((Ascii (true, false, false, true, false,
          true, true, false)), (String ((Ascii (true, true, true, true,
          false, true, true, false)), (String ((Ascii (false, true, true,
          true, false, true, true, false)),
          EmptyString))))))))))))))))))))))))))))) :: ((jk (String ((Ascii
                                                         (true, true, false,
                                                         false, true, true,
                                                         true, false)),
                                                         (String ((Ascii
                                                         (true, false, false,
                                                         true, true, true,
                                                         true, false)),
                                                         (String ((Ascii
                                                         (false, true, true,
                                                         true, false, true,
                                                         true, false)),
                                                         EmptyString))))))
                                                         (JBool s)) :: (
       (jk (String ((Ascii (true, true, false, false, false, true, true,
         false)), (String ((Ascii (false, false, true, false, true, true,
         true, false)), (String ((Ascii (false, false, false, true, true,
         true, true, false)), (String ((Ascii (false, false, true, false,
         true, true, true, false)), EmptyString)))))))) (jN c)) :: ((jk
                                                                    (String
                                                                    ((Ascii
                                                                    (true,
                                                                    true,
                                                                    false,
                                                                    false,
                                                                    false,
                                                                    true,
                                                                    true,
                                                                    false)),
                                                                    (String
                                                                    ((Ascii
                                                                    (true,
                                                                    false,
                                                                    false,
                                                                    false,
                                                                    false,
                                                                    true,
                                                                    true,
                                                                    false)),
                                                                    (String
                                                                    ((Ascii
                                                                    (false,
                                                                    false,
                                                                    true,
                                                                    true,
                                                                    false,
                                                                    true,
                                                                    true,
                                                                    false)),
                                                                    (String
                                                                    ((Ascii
                                                                    (false,
                                                                    false,
                                                                    true,
                                                                    true,
                                                                    false,
                                                                    true,
                                                                    true,
                                                                    false)),
                                                                    (String
                                                                    ((Ascii
                                                                    (true,
                                                                    false,
                                                                    true,
                                                                    false,
                                                                    false,
                                                                    true,
                                                                    true,
                                                                    false)),
                                                                    (String
                                                                    ((Ascii
                                                                    (true,
                                                                    false,
                                                                    true,
                                                                    false,
                                                                    false,
                                                                    true,
                                                                    true,
                                                                    false)),
                                                                    EmptyString))))))))))))
                                                                    (enc f)) :: (
       (jk (String ((Ascii (true, false, false, false, false, true, true,
         false)), (String ((Ascii (false, true, false, false, true, true,
         true, false)), (String ((Ascii (true, true, true, false, false,
         true, true, false)), (String ((Ascii (true, false, true, false,
         true, true, true, false)), (String ((Ascii (true, false, true, true,
         false, true, true, false)), (String ((Ascii (true, false, true,
         false, false, true, true, false)), (String ((Ascii (false, true,
         true, true, false, true, true, false)), (String ((Ascii (false,
         false, true, false, true, true, true, false)), (String ((Ascii
         (true, true, false, false, true, true, true, false)),
         EmptyString)))))))))))))))))) (JArr (encl a))) :: ((jk (String
                                                              ((Ascii (false,
                                                              false, true,
                                                              false, true,
                                                              true, true,
                                                              false)),
                                                              (String ((Ascii
                                                              (true, false,
                                                              false, true,
                                                              true, true,
                                                              true, false)),
                                                              (String ((Ascii
                                                              (false, false,
                                                              false, false,
                                                              true, true,
                                                              true, false)),
                                                              (String ((Ascii
                                                              (true, false,
                                                              true, false,
                                                              false, true,
                                                              true, false)),
                                                              (String ((Ascii
                                                              (true, false,
                                                              false, false,
                                                              false, false,
                                                              true, false)),
                                                              (String ((Ascii
                                                              (false, true,
                                                              false, false,
                                                              true, true,
                                                              true, false)),
                                                              (String ((Ascii
                                                              (true, true,
                                                              true, false,
                                                              false, true,
                                                              true, false)),
                                                              (String ((Ascii
                                                              (true, false,
                                                              true, false,
                                                              true, true,
                                                              true, false)),
                                                              (String ((Ascii
                                                              (true, false,
                                                              true, true,
                                                              false, true,
                                                              true, false)),
                                                              (String ((Ascii
                                                              (true, false,
                                                              true, false,
                                                              false, true,
                                                              true, false)),
                                                              (String ((Ascii
                                                              (false, true,
                                                              true, true,
                                                              false, true,
                                                              true, false)),
                                                              (String ((Ascii
                                                              (false, false,
                                                              true, false,
                                                              true, true,
                                                              true, false)),
                                                              (String ((Ascii
                                                              (true, true,
                                                              false, false,
                                                              true, true,
                                                              true, false)),
                                                              EmptyString))))))))))))))))))))))))))
                                                              (enc t)) :: []))))))
   | Arrow (c, p, b, a, g, tp, rt) ->
     JObj
       ((jty (String ((Ascii (true, false, false, false, false, false, true,
          false)), (String ((Ascii (false, true, false, false, true, true,
          true, false)), (String ((Ascii (false, true, false, false, true,
          true, true, false)), (String ((Ascii (true, true, true, true,
          false, true, true, false)), (String ((Ascii (true, true, true,
          false, true, true, true, false)), (String ((Ascii (false, true,
          true, false, false, false, true, false)), (String ((Ascii (true,
          false, true, false, true, true, true, false)), (String ((Ascii
          (false, true, true, true, false, true, true, false)), (String
          ((Ascii (true, true, false, false, false, true, true, false)),
          (String ((Ascii (false, false, true, false, true, true, true,
          false)), (String ((Ascii (true, false, false, true, false, true,
          true, false)), (String ((Ascii (true, true, true, true, false,
          true, true, false)), (String ((Ascii (false, true, true, true,
          false, true, true, false)), (String ((Ascii (true, false, true,
          false, false, false, true, false)), (String ((Ascii (false, false,
          false, true, true, true, true, false)), (String ((Ascii (false,
          false, false, false, true, true, true, false)), (String ((Ascii
          (false, true, false, false, true, true, true, false)), (String
          ((Ascii (true, false, true, false, false, true, true, false)),
          (String ((Ascii (true, true, false, false, true, true, true,
          false)), (String ((Ascii (true, true, false, false, true, true,
          true, false)), (String ((Ascii (true, false, false, true, false,
          true, true, false)), (String ((Ascii (true, true, true, true,
          false, true, true, false)), (String ((Ascii (false, true, true,
          true, false, true, true, false)),
          EmptyString))))))))))))))))))))))))))))))))))))))))))))))) :: (
       (jk (String ((Ascii (true, true, false, false, false, true, true,
         false)), (String ((Ascii (false, false, true, false, true, true,
         true, false)), (String ((Ascii (false, false, false, true, true,
         true, true, false)), (String ((Ascii (false, false, true, false,
         true, true, true, false)), EmptyString)))))))) (jN c)) :: ((jk
                                                                    (String
                                                                    ((Ascii
                                                                    (false,
                                                                    false,
                                                                    false,
                                                                    false,
                                                                    true,
                                                                    true,
                                                                    true,
                                                                    false)),
                                                                    (String
                                                                    ((Ascii
                                                                    (true,
                                                                    false,
                                                                    false,
                                                                    false,
                                                                    false,
                                                                    true,
                                                                    true,
                                                                    false)),
                                                                    (String
                                                                    ((Ascii
                                                                    (false,
                                                                    true,
                                                                    false,
                                                                    false,
                                                                    true,
                                                                    true,
                                                                    true,
                                                                    false)),
                                                                    (String
                                                                    ((Ascii
                                                                    (true,
                                                                    false,
                                                                    false,
                                                                    false,
                                                                    false,
                                                                    true,
                                                                    true,
                                                                    false)),
                                                                    (String
                                                                    ((Ascii
                                                                    (true,
                                                                    false,
                                                                    true,
                                                                    true,
                                                                    false,
                                                                    true,
                                                                    true,
                                                                    false)),
                                                                    (String
                                                                    ((Ascii
                                                                    (true,
                                                                    true,
                                                                    false,
                                                                    false,
                                                                    true,
                                                                    true,
                                                                    true,
                                                                    false)),
                                                                    EmptyString))))))))))))
                                                                    (JArr
                                                                    (encl p))) :: (
       (jk (String ((Ascii (false, true, false, false, false, true, true,
         false)), (String ((Ascii (true, true, true, true, false, true, true,
         false)), (String ((Ascii (false, false, true, false, false, true,
         true, false)), (String ((Ascii (true, false, false, true, true,
         true, true, false)), EmptyString)))))))) (enc b)) :: ((jk (String
                                                                 ((Ascii
                                                                 (true,
                                                                 false,
                                                                 false,
                                                                 false,
                                                                 false, true,
                                                                 true,
                                                                 false)),
                                                                 (String
                                                                 ((Ascii
                                                                 (true, true,
                                                                 false,
                                                                 false, true,
                                                                 true, true,
                                                                 false)),
                                                                 (String
                                                                 ((Ascii
                                                                 (true,
                                                                 false,
                                                                 false, true,
                                                                 true, true,
                                                                 true,
                                                                 false)),
                                                                 (String
                                                                 ((Ascii
                                                                 (false,
                                                                 true, true,
                                                                 true, false,
                                                                 true, true,
                                                                 false)),
                                                                 (String
                                                                 ((Ascii
                                                                 (true, true,
                                                                 false,
                                                                 false,
                                                                 false, true,
                                                                 true,
                                                                 false)),
                                                                 EmptyString))))))))))
                                                                 (JBool a)) :: (
       (jk (String ((Ascii (true, true, true, false, false, true, true,
         false)), (String ((Ascii (true, false, true, false, false, true,
         true, false)), (String ((Ascii (false, true, true, true, false,
         true, true, false)), (String ((Ascii (true, false, true, false,
         false, true, true, false)), (String ((Ascii (false, true, false,
         false, true, true, true, false)), (String ((Ascii (true, false,
         false, false, false, true, true, false)), (String ((Ascii (false,
         false, true, false, true, true, true, false)), (String ((Ascii
         (true, true, true, true, false, true, true, false)), (String ((Ascii
         (false, true, false, false, true, true, true, false)),
         EmptyString)))))))))))))))))) (JBool g)) :: ((jk (String ((Ascii
                                                        (false, false, true,
                                                        false, true, true,
                                                        true, false)),
                                                        (String ((Ascii
                                                        (true, false, false,
                                                        true, true, true,
                                                        true, false)),
                                                        (String ((Ascii
                                                        (false, false, false,
                                                        false, true, true,
                                                        true, false)),
                                                        (String ((Ascii
                                                        (true, false, true,
                                                        false, false, true,
                                                        true, false)),
                                                        (String ((Ascii
                                                        (false, false, false,
                                                        false, true, false,
                                                        true, false)),
                                                        (String ((Ascii
                                                        (true, false, false,
                                                        false, false, true,
                                                        true, false)),
                                                        (String ((Ascii
                                                        (false, true, false,
                                                        false, true, true,
                                                        true, false)),
                                                        (String ((Ascii
                                                        (true, false, false,
                                                        false, false, true,
                                                        true, false)),
                                                        (String ((Ascii
                                                        (true, false, true,
                                                        true, false, true,
                                                        true, false)),
                                                        (String ((Ascii
                                                        (true, false, true,
                                                        false, false, true,
                                                        true, false)),
                                                        (String ((Ascii
                                                        (false, false, true,
                                                        false, true, true,
                                                        true, false)),
                                                        (String ((Ascii
                                                        (true, false, true,
                                                        false, false, true,
                                                        true, false)),
                                                        (String ((Ascii
                                                        (false, true, false,
                                                        false, true, true,
                                                        true, false)),
                                                        (String ((Ascii
                                                        (true, true, false,
                                                        false, true, true,
                                                        true, false)),
                                                        EmptyString))))))))))))))))))))))))))))
                                                        (enc tp)) :: (
       (jk (String ((Ascii (false, true, false, false, true, true, true,
         false)), (String ((Ascii (true, false, true, false, false, true,
         true, false)), (String ((Ascii (false, false, true, false, true,
         true, true, false)), (String ((Ascii (true, false, true, false,
         true, true, true, false)), (String ((Ascii (false, true, false,
         false, true, true, true, false)), (String ((Ascii (false, true,
         true, true, false, true, true, false)), (String ((Ascii (false,
         false, true, false, true, false, true, false)), (String ((Ascii
         (true, false, false, true, true, true, true, false)), (String
         ((Ascii (false, false, false, false, true, true, true, false)),
         (String ((Ascii (true, false, true, false, false, true, true,
         false)), EmptyString)))))))))))))))))))) (enc rt)) :: []))))))))
   | Assign (o, l, r) ->
     JObj
       ((jty (String ((Ascii (true, false, false, false, false, false, true,
          false)), (String ((Ascii (true, true, false, false, true, true,
          true, false)), (String ((Ascii (true, true, false, false, true,
          true, true, false)), (String ((Ascii (true, false, false, true,
          false, true, true, false)), (String ((Ascii (true, true, true,
          false, false, true, true, false)), (String ((Ascii (false, true,
          true, true, false, true, true, false)), (String ((Ascii (true,
          false, true, true, false, true, true, false)), (String ((Ascii
          (true, false, true, false, false, true, true, false)), (String
          ((Ascii (false, true, true, true, false, true, true, false)),
          (String ((Ascii (false, false, true, false, true, true, true,
          false)), (String ((Ascii (true, false, true, false, false, false,
          true, false)), (String ((Ascii (false, false, false, true, true,
          true, true, false)), (String ((Ascii (false, false, false, false,
          true, true, true, false)), (String ((Ascii (false, true, false,
          false, true, true, true, false)), (String ((Ascii (true, false,
          true, false, false, true, true, false)), (String ((Ascii (true,
          true, false, false, true, true, true, false)), (String ((Ascii
          (true, true, false, false, true, true, true, false)), (String
          ((Ascii (true, false, false, true, false, true, true, false)),
          (String ((Ascii (true, true, true, true, false, true, true,
          false)), (String ((Ascii (false, true, true, true, false, true,
          true, false)), EmptyString))))))))))))))))))))))))))))))))))))))))) :: (
       (jk (String ((Ascii (true, true, true, true, false, true, true,
         false)), (String ((Ascii (false, false, false, false, true, true,
         true, false)), (String ((Ascii (true, false, true, false, false,
         true, true, false)), (String ((Ascii (false, true, false, false,
         true, true, true, false)), (String ((Ascii (true, false, false,
         false, false, true, true, false)), (String ((Ascii (false, false,
         true, false, true, true, true, false)), (String ((Ascii (true, true,
         true, true, false, true, true, false)), (String ((Ascii (false,
         true, false, false, true, true, true, false)),
         EmptyString)))))))))))))))) (JStr o)) :: ((jk (String ((Ascii
                                                     (false, false, true,
                                                     true, false, true, true,
                                                     false)), (String ((Ascii
                                                     (true, false, true,
                                                     false, false, true,
                                                     true, false)), (String
                                                     ((Ascii (false, true,
                                                     true, false, false,
                                                     true, true, false)),
                                                     (String ((Ascii (false,
                                                     false, true, false,
                                                     true, true, true,
                                                     false)),
                                                     EmptyString))))))))
                                                     (enc l)) :: ((jk (String
                                                                    ((Ascii
                                                                    (false,
                                                                    true,
                                                                    false,
                                                                    false,
                                                                    true,
                                                                    true,
                                                                    true,
                                                                    false)),
                                                                    (String
                                                                    ((Ascii
                                                                    (true,
                                                                    false,
                                                                    false,
                                                                    true,
                                                                    false,
                                                                    true,
                                                                    true,
                                                                    false)),
                                                                    (String
                                                                    ((Ascii
                                                                    (true,
                                                                    true,
                                                                    true,
                                                                    false,
                                                                    false,
                                                                    true,
                                                                    true,
                                                                    false)),
                                                                    (String
                                                                    ((Ascii
                                                                    (false,
                                                                    false,
                                                                    false,
                                                                    true,
                                                                    false,
                                                                    true,
                                                                    true,
                                                                    false)),
                                                                    (String
                                                                    ((Ascii
                                                                    (false,
                                                                    false,
                                                                    true,
                                                                    false,
                                                                    true,
                                                                    true,
                                                                    true,
                                                                    false)),
                                                                    EmptyString))))))))))
                                                                    (enc r)) :: []))))
   | Paren e ->
     JObj
       ((jty (String ((Ascii (false, false, false, false, true, false, true,
          false)), (String ((Ascii (true, false, false, false, false, true,
          true, false)), (String ((Ascii (false, true, false, false, true,
          true, true, false)), (String ((Ascii (true, false, true, false,
          false, true, true, false)), (String ((Ascii (false, true, true,
          true, false, true, true, false)), (String ((Ascii (false, false,
          true, false, true, true, true, false)), (String ((Ascii (false,
          false, false, true, false, true, true, false)), (String ((Ascii
          (true, false, true, false, false, true, true, false)), (String
          ((Ascii (true, true, false, false, true, true, true, false)),
          (String ((Ascii (true, false, false, true, false, true, true,
          false)), (String ((Ascii (true, true, false, false, true, true,
          true, false)), (String ((Ascii (true, false, true, false, false,
          false, true, false)), (String ((Ascii (false, false, false, true,
          true, true, true, false)), (String ((Ascii (false, false, false,
          false, true, true, true, false)), (String ((Ascii (false, true,
          false, false, true, true, true, false)), (String ((Ascii (true,
          false, true, false, false, true, true, false)), (String ((Ascii
          (true, true, false, false, true, true, true, false)), (String
          ((Ascii (true, true, false, false, true, true, true, false)),
          (String ((Ascii (true, false, false, true, false, true, true,
          false)), (String ((Ascii (true, true, true, true, false, true,
          true, false)), (String ((Ascii (false, true, true, true, false,
          true, true, false)),
          EmptyString))))))))))))))))))))))))))))))))))))))))))) :: (
       (jk (String ((Ascii (true, false, true, false, false, true, true,
         false)), (String ((Ascii (false, false, false, true, true, true,
         true, false)), (String ((Ascii (false, false, false, false, true,
         true, true, false)), (String ((Ascii (false, true, false, false,
         true, true, true, false)), (String ((Ascii (true, false, true,
         false, false, true, true, false)), (String ((Ascii (true, true,
         false, false, true, true, true, false)), (String ((Ascii (true,
         true, false, false, true, true, true, false)), (String ((Ascii
         (true, false, false, true, false, true, true, false)), (String
         ((Ascii (true, true, true, true, false, true, true, false)), (String
         ((Ascii (false, true, true, true, false, true, true, false)),
         EmptyString)))))))))))))))))))) (enc e)) :: []))
   | Cond (t, c, a) ->
     JObj
       ((jty (String ((Ascii (true, true, false, false, false, false, true,
          false)), (String ((Ascii (true, true, true, true, false, true,
          true, false)), (String ((Ascii (false, true, true, true, false,
          true, true, false)), (String ((Ascii (false, false, true, false,
          false, true, true, false)), (String ((Ascii (true, false, false,
          true, false, true, true, false)), (String ((Ascii (false, false,
          true, false, true, true, true, false)), (String ((Ascii (true,
          false, false, true, false, true, true, false)), (String ((Ascii
          (true, true, true, true, false, true, true, false)), (String
          ((Ascii (false, true, true, true, false, true, true, false)),
          (String ((Ascii (true, false, false, false, false, true, true,
          false)), (String ((Ascii (false, false, true, true, false, true,
          true, false)), (String ((Ascii (true, false, true, false, false,
          false, true, false)), (String ((Ascii (false, false, false, true,
          true, true, true, false)), (String ((Ascii (false, false, false,
          false, true, true, true, false)), (String ((Ascii (false, true,
          false, false, true, true, true, false)), (String ((Ascii (true,
          false, true, false, false, true, true, false)), (String ((Ascii
          (true, true, false, false, true, true, true, false)), (String
          ((Ascii (true, true, false, false, true, true, true, false)),
          (String ((Ascii (true, false, false, true, false, true, true,
          false)), (String ((Ascii (true, true, true, true, false, true,
          true, false)), (String ((Ascii (false, true, true, true, false,
          true, true, false)),
          EmptyString))))))))))))))))))))))))))))))))))))))))))) :: (
       (jk (String ((Ascii (false, false, true, false, true, true, true,
         false)), (String ((Ascii (true, false, true, false, false, true,
         true, false)), (String ((Ascii (true, true, false, false, true,
         true, true, false)), (String ((Ascii (false, false, true, false,
         true, true, true, false)), EmptyString)))))))) (enc t)) :: (
       (jk (String ((Ascii (true, true, false, false, false, true, true,
         false)), (String ((Ascii (true, true, true, true, false, true, true,
         false)), (String ((Ascii (false, true, true, true, false, true,
         true, false)), (String ((Ascii (true, true, false, false, true,
         true, true, false)), (String ((Ascii (true, false, true, false,
         false, true, true, false)), (String ((Ascii (true, false, false,
         false, true, true, true, false)), (String ((Ascii (true, false,
         true, false, true, true, true, false)), (String ((Ascii (true,
         false, true, false, false, true, true, false)), (String ((Ascii
         (false, true, true, true, false, true, true, false)), (String
         ((Ascii (false, false, true, false, true, true, true, false)),
         EmptyString)))))))))))))))))))) (enc c)) :: ((jk (String ((Ascii
                                                        (true, false, false,
                                                        false, false, true,
                                                        true, false)),
                                                        (String ((Ascii
                                                        (false, false, true,
                                                        true, false, true,
                                                        true, false)),
                                                        (String ((Ascii
                                                        (false, false, true,
                                                        false, true, true,
                                                        true, false)),
                                                        (String ((Ascii
                                                        (true, false, true,
                                                        false, false, true,
                                                        true, false)),
                                                        (String ((Ascii
                                                        (false, true, false,
                                                        false, true, true,
                                                        true, false)),
                                                        (String ((Ascii
                                                        (false, true, true,
                                                        true, false, true,
                                                        true, false)),
                                                        (String ((Ascii
                                                        (true, false, false,
                                                        false, false, true,
                                                        true, false)),
                                                        (String ((Ascii
                                                        (false, false, true,
                                                        false, true, true,
                                                        true, false)),
                                                        (String ((Ascii
                                                        (true, false, true,
                                                        false, false, true,
                                                        true, false)),
                                                        EmptyString))))))))))))))))))
                                                        (enc a)) :: []))))
   | Bin (o, l, r) ->
     JObj
       ((jty (String ((Ascii (false, true, false, false, false, false, true,
          false)), (String ((Ascii (true, false, false, true, false, true,
          true, false)), (String ((Ascii (false, true, true, true, false,
          true, true, false)), (String ((Ascii (true, false, false, false,
          false, true, true, false)), (String ((Ascii (false, true, false,
          false, true, true, true, false)), (String ((Ascii (true, false,
          false, true, true, true, true, false)), (String ((Ascii (true,
          false, true, false, false, false, true, false)), (String ((Ascii
          (false, false, false, true, true, true, true, false)), (String
          ((Ascii (false, false, false, false, true, true, true, false)),
          (String ((Ascii (false, true, false, false, true, true, true,
          false)), (String ((Ascii (true, false, true, false, false, true,
          true, false)), (String ((Ascii (true, true, false, false, true,
          true, true, false)), (String ((Ascii (true, true, false, false,
          true, true, true, false)), (String ((Ascii (true, false, false,
          true, false, true, true, false)), (String ((Ascii (true, true,
          true, true, false, true, true, false)), (String ((Ascii (false,
          true, true, true, false, true, true, false)),
          EmptyString))))))))))))))))))))))))))))))))) :: ((jk (String
                                                             ((Ascii (true,
                                                             true, true,
                                                             true, false,
                                                             true, true,
                                                             false)), (String
                                                             ((Ascii (false,
                                                             false, false,
                                                             false, true,
                                                             true, true,
                                                             false)), (String
                                                             ((Ascii (true,
                                                             false, true,
                                                             false, false,
                                                             true, true,
                                                             false)), (String
                                                             ((Ascii (false,
                                                             true, false,
                                                             false, true,
                                                             true, true,
                                                             false)), (String
                                                             ((Ascii (true,
                                                             false, false,
                                                             false, false,
                                                             true, true,
                                                             false)), (String
                                                             ((Ascii (false,
                                                             false, true,
                                                             false, true,
                                                             true, true,
                                                             false)), (String
                                                             ((Ascii (true,
                                                             true, true,
                                                             true, false,
                                                             true, true,
                                                             false)), (String
                                                             ((Ascii (false,
                                                             true, false,
                                                             false, true,
                                                             true, true,
                                                             false)),
                                                             EmptyString))))))))))))))))
                                                             (JStr o)) :: (
       (jk (String ((Ascii (false, false, true, true, false, true, true,
         false)), (String ((Ascii (true, false, true, false, false, true,
         true, false)), (String ((Ascii (false, true, true, false, false,
         true, true, false)), (String ((Ascii (false, false, true, false,
         true, true, true, false)), EmptyString)))))))) (enc l)) :: (
       (jk (String ((Ascii (false, true, false, false, true, true, true,
         false)), (String ((Ascii (true, false, false, true, false, true,
         true, false)), (String ((Ascii (true, true, true, false, false,
         true, true, false)), (String ((Ascii (false, false, false, true,
         false, true, true, false)), (String ((Ascii (false, false, true,
         false, true, true, true, false)), EmptyString)))))))))) (enc r)) :: []))))
   | Unary (o, a) ->
     JObj
       ((jty (String ((Ascii (true, false, true, false, true, false, true,
          false)), (String ((Ascii (false, true, true, true, false, true,
          true, false)), (String ((Ascii (true, false, false, false, false,
          true, true, false)), (String ((Ascii (false, true, false, false,
          true, true, true, false)), (String ((Ascii (true, false, false,
          true, true, true, true, false)), (String ((Ascii (true, false,
          true, false, false, false, true, false)), (String ((Ascii (false,
          false, false, true, true, true, true, false)), (String ((Ascii
          (false, false, false, false, true, true, true, false)), (String
          ((Ascii (false, true, false, false, true, true, true, false)),
          (String ((Ascii (true, false, true, false, false, true, true,
          false)), (String ((Ascii (true, true, false, false, true, true,
          true, false)), (String ((Ascii (true, true, false, false, true,
          true, true, false)), (String ((Ascii (true, false, false, true,
          false, true, true, false)), (String ((Ascii (true, true, true,
          true, false, true, true, false)), (String ((Ascii (false, true,
          true, true, false, true, true, false)),
          EmptyString))))))))))))))))))))))))))))))) :: ((jk (String ((Ascii
                                                           (true, true, true,
                                                           true, false, true,
                                                           true, false)),
                                                           (String ((Ascii
                                                           (false, false,
                                                           false, false,
                                                           true, true, true,
                                                           false)), (String
                                                           ((Ascii (true,
                                                           false, true,
                                                           false, false,
                                                           true, true,
                                                           false)), (String
                                                           ((Ascii (false,
                                                           true, false,
                                                           false, true, true,
                                                           true, false)),
                                                           (String ((Ascii
                                                           (true, false,
                                                           false, false,
                                                           false, true, true,
                                                           false)), (String
                                                           ((Ascii (false,
                                                           false, true,
                                                           false, true, true,
                                                           true, false)),
                                                           (String ((Ascii
                                                           (true, true, true,
                                                           true, false, true,
                                                           true, false)),
                                                           (String ((Ascii
                                                           (false, true,
                                                           false, false,
                                                           true, true, true,
                                                           false)),
                                                           EmptyString))))))))))))))))
                                                           (JStr o)) :: (
       (jk (String ((Ascii (true, false, false, false, false, true, true,
         false)), (String ((Ascii (false, true, false, false, true, true,
         true, false)), (String ((Ascii (true, true, true, false, false,
         true, true, false)), (String ((Ascii (true, false, true, false,
         true, true, true, false)), (String ((Ascii (true, false, true, true,
         false, true, true, false)), (String ((Ascii (true, false, true,
         false, false, true, true, false)), (String ((Ascii (false, true,
         true, true, false, true, true, false)), (String ((Ascii (false,
         false, true, false, true, true, true, false)),
         EmptyString)))))))))))))))) (enc a)) :: [])))
   | Member (o, p) ->
     JObj
       ((jty (String ((Ascii (true, false, true, true, false, false, true,
          false)), (String ((Ascii (true, false, true, false, false, true,
          true, false)), (String ((Ascii (true, false, true, true, false,
          true, true, false)), (String ((Ascii (false, true, false, false,
          false, true, true, false)), (String ((Ascii (true, false, true,
          false, false, true, true, false)), (String ((Ascii (false, true,
          false, false, true, true, true, false)), (String ((Ascii (true,
          false, true, false, false, false, true, false)), (String ((Ascii
          (false, false, false, true, true, true, true, false)), (String
          ((Ascii (false, false, false, false, true, true, true, false)),
          (String ((Ascii (false, true, false, false, true, true, true,
          false)), (String ((Ascii (true, false, true, false, false, true,
          true, false)), (String ((Ascii (true, true, false, false, true,
          true, true, false)), (String ((Ascii (true, true, false, false,
          true, true, true, false)), (String ((Ascii (true, false, false,
          true, false, true, true, false)), (String ((Ascii (true, true,
          true, true, false, true, true, false)), (String ((Ascii (false,
          true, true, true, false, true, true, false)),
          EmptyString))))))))))))))))))))))))))))))))) :: ((jk (String
                                                             ((Ascii (true,
                                                             true, true,
                                                             true, false,
                                                             true, true,
                                                             false)), (String
                                                             ((Ascii (false,
                                                             true, false,
                                                             false, false,
                                                             true, true,
                                                             false)), (String
                                                             ((Ascii (false,
                                                             true, false,
                                                             true, false,
                                                             true, true,
                                                             false)), (String
                                                             ((Ascii (true,
                                                             false, true,
                                                             false, false,
                                                             true, true,
                                                             false)), (String
                                                             ((Ascii (true,
                                                             true, false,
                                                             false, false,
                                                             true, true,
                                                             false)), (String
                                                             ((Ascii (false,
                                                             false, true,
                                                             false, true,
                                                             true, true,
                                                             false)),
                                                             EmptyString))))))))))))
                                                             (enc o)) :: (
       (jk (String ((Ascii (false, false, false, false, true, true, true,
         false)), (String ((Ascii (false, true, false, false, true, true,
         true, false)), (String ((Ascii (true, true, true, true, false, true,
         true, false)), (String ((Ascii (false, false, false, false, true,
         true, true, false)), (String ((Ascii (true, false, true, false,
         false, true, true, false)), (String ((Ascii (false, true, false,
         false, true, true, true, false)), (String ((Ascii (false, false,
         true, false, true, true, true, false)), (String ((Ascii (true,
         false, false, true, true, true, true, false)),
         EmptyString)))))))))))))))) (enc p)) :: [])))
   | Block (c, s) ->
     JObj
       ((jty (String ((Ascii (false, true, false, false, false, false, true,
          false)), (String ((Ascii (false, false, true, true, false, true,
          true, false)), (String ((Ascii (true, true, true, true, false,
          true, true, false)), (String ((Ascii (true, true, false, false,
          false, true, true, false)), (String ((Ascii (true, true, false,
          true, false, true, true, false)), (String ((Ascii (true, true,
          false, false, true, false, true, false)), (String ((Ascii (false,
          false, true, false, true, true, true, false)), (String ((Ascii
          (true, false, false, false, false, true, true, false)), (String
          ((Ascii (false, false, true, false, true, true, true, false)),
          (String ((Ascii (true, false, true, false, false, true, true,
          false)), (String ((Ascii (true, false, true, true, false, true,
          true, false)), (String ((Ascii (true, false, true, false, false,
          true, true, false)), (String ((Ascii (false, true, true, true,
          false, true, true, false)), (String ((Ascii (false, false, true,
          false, true, true, true, false)),
          EmptyString))))))))))))))))))))))))))))) :: ((jk (String ((Ascii
                                                         (true, true, false,
                                                         false, false, true,
                                                         true, false)),
                                                         (String ((Ascii
                                                         (false, false, true,
                                                         false, true, true,
                                                         true, false)),
                                                         (String ((Ascii
                                                         (false, false,
                                                         false, true, true,
                                                         true, true, false)),
                                                         (String ((Ascii
                                                         (false, false, true,
                                                         false, true, true,
                                                         true, false)),
                                                         EmptyString))))))))
                                                         (jN c)) :: (
       (jk (String ((Ascii (true, true, false, false, true, true, true,
         false)), (String ((Ascii (false, false, true, false, true, true,
         true, false)), (String ((Ascii (true, false, true, true, false,
         true, true, false)), (String ((Ascii (false, false, true, false,
         true, true, true, false)), (String ((Ascii (true, true, false,
         false, true, true, true, false)), EmptyString)))))))))) (JArr
         (encl s))) :: [])))
   | JsxE (nm, a, sc, ta, ch, cl) ->
     JObj
       ((jty (String ((Ascii (false, true, false, true, false, false, true,
          false)), (String ((Ascii (true, true, false, false, true, false,
          true, false)), (String ((Ascii (false, false, false, true, true,
          false, true, false)), (String ((Ascii (true, false, true, false,
          false, false, true, false)), (String ((Ascii (false, false, true,
          true, false, true, true, false)), (String ((Ascii (true, false,
          true, false, false, true, true, false)), (String ((Ascii (true,
          false, true, true, false, true, true, false)), (String ((Ascii
          (true, false, true, false, false, true, true, false)), (String
          ((Ascii (false, true, true, true, false, true, true, false)),
          (String ((Ascii (false, false, true, false, true, true, true,
          false)), EmptyString))))))))))))))))))))) :: ((jk (String ((Ascii
                                                          (true, true, true,
                                                          true, false, true,
                                                          true, false)),
                                                          (String ((Ascii
                                                          (false, false,
                                                          false, false, true,
                                                          true, true,
                                                          false)), (String
                                                          ((Ascii (true,
                                                          false, true, false,
                                                          false, true, true,
                                                          false)), (String
                                                          ((Ascii (false,
                                                          true, true, true,
                                                          false, true, true,
                                                          false)), (String
                                                          ((Ascii (true,
                                                          false, false, true,
                                                          false, true, true,
                                                          false)), (String
                                                          ((Ascii (false,
                                                          true, true, true,
                                                          false, true, true,
                                                          false)), (String
                                                          ((Ascii (true,
                                                          true, true, false,
                                                          false, true, true,
                                                          false)),
                                                          EmptyString))))))))))))))
                                                          (JObj
                                                          ((jty (String
                                                             ((Ascii (false,
                                                             true, false,
                                                             true, false,
                                                             false, true,
                                                             false)), (String
                                                             ((Ascii (true,
                                                             true, false,
                                                             false, true,
                                                             false, true,
                                                             false)), (String
                                                             ((Ascii (false,
                                                             false, false,
                                                             true, true,
                                                             false, true,
                                                             false)), (String
                                                             ((Ascii (true,
                                                             true, true,
                                                             true, false,
                                                             false, true,
                                                             false)), (String
                                                             ((Ascii (false,
                                                             false, false,
                                                             false, true,
                                                             true, true,
                                                             false)), (String
                                                             ((Ascii (true,
                                                             false, true,
                                                             false, false,
                                                             true, true,
                                                             false)), (String
                                                             ((Ascii (false,
                                                             true, true,
                                                             true, false,
                                                             true, true,
                                                             false)), (String
                                                             ((Ascii (true,
                                                             false, false,
                                                             true, false,
                                                             true, true,
                                                             false)), (String
                                                             ((Ascii (false,
                                                             true, true,
                                                             true, false,
                                                             true, true,
                                                             false)), (String
                                                             ((Ascii (true,
                                                             true, true,
                                                             false, false,
                                                             true, true,
                                                             false)), (String
                                                             ((Ascii (true,
                                                             false, true,
                                                             false, false,
                                                             false, true,
                                                             false)), (String
                                                             ((Ascii (false,
                                                             false, true,
                                                             true, false,
                                                             true, true,
                                                             false)), (String
                                                             ((Ascii (true,
                                                             false, true,
                                                             false, false,
                                                             true, true,
                                                             false)), (String
                                                             ((Ascii (true,
                                                             false, true,
                                                             true, false,
                                                             true, true,
                                                             false)), (String
                                                             ((Ascii (true,
                                                             false, true,
                                                             false, false,
                                                             true, true,
                                                             false)), (String
                                                             ((Ascii (false,
                                                             true, true,
                                                             true, false,
                                                             true, true,
                                                             false)), (String
                                                             ((Ascii (false,
                                                             false, true,
                                                             false, true,
                                                             true, true,
                                                             false)),
                                                             EmptyString))))))))))))))))))))))))))))))))))) :: (
                                                          (jk (String ((Ascii
                                                            (false, true,
                                                            true, true,
                                                            false, true,
                                                            true, false)),
                                                            (String ((Ascii
                                                            (true, false,
                                                            false, false,
                                                            false, true,
                                                            true, false)),
                                                            (String ((Ascii
                                                            (true, false,
                                                            true, true,
                                                            false, true,
                                                            true, false)),
                                                            (String ((Ascii
                                                            (true, false,
                                                            true, false,
                                                            false, true,
                                                            true, false)),
                                                            EmptyString))))))))
                                                            (enc nm)) :: (
                                                          (jk (String ((Ascii
                                                            (true, false,
                                                            false, false,
                                                            false, true,
                                                            true, false)),
                                                            (String ((Ascii
                                                            (false, false,
                                                            true, false,
                                                            true, true, true,
                                                            false)), (String
                                                            ((Ascii (false,
                                                            false, true,
                                                            false, true,
                                                            true, true,
                                                            false)), (String
                                                            ((Ascii (false,
                                                            true, false,
                                                            false, true,
                                                            true, true,
                                                            false)), (String
                                                            ((Ascii (true,
                                                            false, false,
                                                            true, false,
                                                            true, true,
                                                            false)), (String
                                                            ((Ascii (false,
                                                            true, false,
                                                            false, false,
                                                            true, true,
                                                            false)), (String
                                                            ((Ascii (true,
                                                            false, true,
                                                            false, true,
                                                            true, true,
                                                            false)), (String
                                                            ((Ascii (false,
                                                            false, true,
                                                            false, true,
                                                            true, true,
                                                            false)), (String
                                                            ((Ascii (true,
                                                            false, true,
                                                            false, false,
                                                            true, true,
                                                            false)), (String
                                                            ((Ascii (true,
                                                            true, false,
                                                            false, true,
                                                            true, true,
                                                            false)),
                                                            EmptyString))))))))))))))))))))
                                                            (JArr (encl a))) :: (
                                                          (jk (String ((Ascii
                                                            (true, true,
                                                            false, false,
                                                            true, true, true,
                                                            false)), (String
                                                            ((Ascii (true,
                                                            false, true,
                                                            false, false,
                                                            true, true,
                                                            false)), (String
                                                            ((Ascii (false,
                                                            false, true,
                                                            true, false,
                                                            true, true,
                                                            false)), (String
                                                            ((Ascii (false,
                                                            true, true,
                                                            false, false,
                                                            true, true,
                                                            false)), (String
                                                            ((Ascii (true,
                                                            true, false,
                                                            false, false,
                                                            false, true,
                                                            false)), (String
                                                            ((Ascii (false,
                                                            false, true,
                                                            true, false,
                                                            true, true,
                                                            false)), (String
                                                            ((Ascii (true,
                                                            true, true, true,
                                                            false, true,
                                                            true, false)),
                                                            (String ((Ascii
                                                            (true, true,
                                                            false, false,
                                                            true, true, true,
                                                            false)), (String
                                                            ((Ascii (true,
                                                            false, false,
                                                            true, false,
                                                            true, true,
                                                            false)), (String
                                                            ((Ascii (false,
                                                            true, true, true,
                                                            false, true,
                                                            true, false)),
                                                            (String ((Ascii
                                                            (true, true,
                                                            true, false,
                                                            false, true,
                                                            true, false)),
                                                            EmptyString))))))))))))))))))))))
                                                            (JBool sc)) :: (
                                                          (jk (String ((Ascii
                                                            (false, false,
                                                            true, false,
                                                            true, true, true,
                                                            false)), (String
                                                            ((Ascii (true,
                                                            false, false,
                                                            true, true, true,
                                                            true, false)),
                                                            (String ((Ascii
                                                            (false, false,
                                                            false, false,
                                                            true, true, true,
                                                            false)), (String
                                                            ((Ascii (true,
                                                            false, true,
                                                            false, false,
                                                            true, true,
                                                            false)), (String
                                                            ((Ascii (true,
                                                            false, false,
                                                            false, false,
                                                            false, true,
                                                            false)), (String
                                                            ((Ascii (false,
                                                            true, false,
                                                            false, true,
                                                            true, true,
                                                            false)), (String
                                                            ((Ascii (true,
                                                            true, true,
                                                            false, false,
                                                            true, true,
                                                            false)), (String
                                                            ((Ascii (true,
                                                            false, true,
                                                            false, true,
                                                            true, true,
                                                            false)), (String
                                                            ((Ascii (true,
                                                            false, true,
                                                            true, false,
                                                            true, true,
                                                            false)), (String
                                                            ((Ascii (true,
                                                            false, true,
                                                            false, false,
                                                            true, true,
                                                            false)), (String
                                                            ((Ascii (false,
                                                            true, true, true,
                                                            false, true,
                                                            true, false)),
                                                            (String ((Ascii
                                                            (false, false,
                                                            true, false,
                                                            true, true, true,
                                                            false)), (String
                                                            ((Ascii (true,
                                                            true, false,
                                                            false, true,
                                                            true, true,
                                                            false)),
                                                            EmptyString))))))))))))))))))))))))))
                                                            (enc ta)) :: []))))))) :: (
       (jk (String ((Ascii (true, true, false, false, false, true, true,
         false)), (String ((Ascii (false, false, false, true, false, true,
         true, false)), (String ((Ascii (true, false, false, true, false,
         true, true, false)), (String ((Ascii (false, false, true, true,
         false, true, true, false)), (String ((Ascii (false, false, true,
         false, false, true, true, false)), (String ((Ascii (false, true,
         false, false, true, true, true, false)), (String ((Ascii (true,
         false, true, false, false, true, true, false)), (String ((Ascii
         (false, true, true, true, false, true, true, false)),
         EmptyString)))))))))))))))) (JArr (encl ch))) :: ((jk (String
                                                             ((Ascii (true,
                                                             true, false,
                                                             false, false,
                                                             true, true,
                                                             false)), (String
                                                             ((Ascii (false,
                                                             false, true,
                                                             true, false,
                                                             true, true,
                                                             false)), (String
                                                             ((Ascii (true,
                                                             true, true,
                                                             true, false,
                                                             true, true,
                                                             false)), (String
                                                             ((Ascii (true,
                                                             true, false,
                                                             false, true,
                                                             true, true,
                                                             false)), (String
                                                             ((Ascii (true,
                                                             false, false,
                                                             true, false,
                                                             true, true,
                                                             false)), (String
                                                             ((Ascii (false,
                                                             true, true,
                                                             true, false,
                                                             true, true,
                                                             false)), (String
                                                             ((Ascii (true,
                                                             true, true,
                                                             false, false,
                                                             true, true,
                                                             false)),
                                                             EmptyString))))))))))))))
                                                             (enc cl)) :: []))))
   | JsxF ch ->
     JObj
       ((jty (String ((Ascii (false, true, false, true, false, false, true,
          false)), (String ((Ascii (true, true, false, false, true, false,
          true, false)), (String ((Ascii (false, false, false, true, true,
          false, true, false)), (String ((Ascii (false, true, true, false,
          false, false, true, false)), (String ((Ascii (false, true, false,
          false, true, true, true, false)), (String ((Ascii (true, false,
          false, false, false, true, true, false)), (String ((Ascii (true,
          true, true, false, false, true, true, false)), (String ((Ascii
          (true, false, true, true, false, true, true, false)), (String
          ((Ascii (true, false, true, false, false, true, true, false)),
          (String ((Ascii (false, true, true, true, false, true, true,
          false)), (String ((Ascii (false, false, true, false, true, true,
          true, false)), EmptyString))))))))))))))))))))))) :: ((jk (String
                                                                  ((Ascii
                                                                  (true,
                                                                  true, true,
                                                                  true,
                                                                  false,
                                                                  true, true,
                                                                  false)),
                                                                  (String
                                                                  ((Ascii
                                                                  (false,
                                                                  false,
                                                                  false,
                                                                  false,
                                                                  true, true,
                                                                  true,
                                                                  false)),
                                                                  (String
                                                                  ((Ascii
                                                                  (true,
                                                                  false,
                                                                  true,
                                                                  false,
                                                                  false,
                                                                  true, true,
                                                                  false)),
                                                                  (String
                                                                  ((Ascii
                                                                  (false,
                                                                  true, true,
                                                                  true,
                                                                  false,
                                                                  true, true,
                                                                  false)),
                                                                  (String
                                                                  ((Ascii
                                                                  (true,
                                                                  false,
                                                                  false,
                                                                  true,
                                                                  false,
                                                                  true, true,
                                                                  false)),
                                                                  (String
                                                                  ((Ascii
                                                                  (false,
                                                                  true, true,
                                                                  true,
                                                                  false,
                                                                  true, true,
                                                                  false)),
                                                                  (String
                                                                  ((Ascii
                                                                  (true,
                                                                  true, true,
                                                                  false,
                                                                  false,
                                                                  true, true,
                                                                  false)),
                                                                  EmptyString))))))))))))))
                                                                  (JObj
                                                                  ((jty
                                                                    (String
                                                                    ((Ascii
                                                                    (false,
                                                                    true,
                                                                    false,
                                                                    true,
                                                                    false,
                                                                    false,
                                                                    true,
                                                                    false)),
                                                                    (String
                                                                    ((Ascii
                                                                    (true,
                                                                    true,
                                                                    false,
                                                                    false,
                                                                    true,
                                                                    false,
                                                                    true,
                                                                    false)),
                                                                    (String
                                                                    ((Ascii
                                                                    (false,
                                                                    false,
                                                                    false,
                                                                    true,
                                                                    true,
                                                                    false,
                                                                    true,
                                                                    false)),
                                                                    (String
                                                                    ((Ascii
                                                                    (true,
                                                                    true,
                                                                    true,
                                                                    true,
                                                                    false,
                                                                    false,
                                                                    true,
                                                                    false)),
                                                                    (String
                                                                    ((Ascii
                                                                    (false,
                                                                    false,
                                                                    false,
                                                                    false,
                                                                    true,
                                                                    true,
                                                                    true,
                                                                    false)),
                                                                    (String
                                                                    ((Ascii
                                                                    (true,
                                                                    false,
                                                                    true,
                                                                    false,
                                                                    false,
                                                                    true,
                                                                    true,
                                                                    false)),
                                                                    (String
                                                                    ((Ascii
                                                                    (false,
                                                                    true,
                                                                    true,
                                                                    true,
                                                                    false,
                                                                    true,
                                                                    true,
                                                                    false)),
                                                                    (String
                                                                    ((Ascii
                                                                    (true,
                                                                    false,
                                                                    false,
                                                                    true,
                                                                    false,
                                                                    true,
                                                                    true,
                                                                    false)),
                                                                    (String
                                                                    ((Ascii
                                                                    (false,
                                                                    true,
                                                                    true,
                                                                    true,
                                                                    false,
                                                                    true,
                                                                    true,
                                                                    false)),
                                                                    (String
                                                                    ((Ascii
                                                                    (true,
                                                                    true,
                                                                    true,
                                                                    false,
                                                                    false,
                                                                    true,
                                                                    true,
                                                                    false)),
                                                                    (String
                                                                    ((Ascii
                                                                    (false,
                                                                    true,
                                                                    true,
                                                                    false,
                                                                    false,
                                                                    false,
                                                                    true,
                                                                    false)),
                                                                    (String
                                                                    ((Ascii
                                                                    (false,
                                                                    true,
                                                                    false,
                                                                    false,
                                                                    true,
                                                                    true,
                                                                    true,
                                                                    false)),
                                                                    (String
                                                                    ((Ascii
                                                                    (true,
                                                                    false,
                                                                    false,
                                                                    false,
                                                                    false,
                                                                    true,
                                                                    true,
                                                                    false)),
                                                                    (String
                                                                    ((Ascii
                                                                    (true,
                                                                    true,
                                                                    true,
                                                                    false,
                                                                    false,
                                                                    true,
                                                                    true,
                                                                    false)),
                                                                    (String
                                                                    ((Ascii
                                                                    (true,
                                                                    false,
                                                                    true,
                                                                    true,
                                                                    false,
                                                                    true,
                                                                    true,
                                                                    false)),
                                                                    (String
                                                                    ((Ascii
                                                                    (true,
                                                                    false,
                                                                    true,
                                                                    false,
                                                                    false,
                                                                    true,
                                                                    true,
                                                                    false)),
                                                                    (String
                                                                    ((Ascii
                                                                    (false,
                                                                    true,
                                                                    true,
                                                                    true,
                                                                    false,
                                                                    true,
                                                                    true,
                                                                    false)),
                                                                    (String
                                                                    ((Ascii
                                                                    (false,
                                                                    false,
                                                                    true,
                                                                    false,
                                                                    true,
                                                                    true,
                                                                    true,
                                                                    false)),
                                                                    EmptyString))))))))))))))))))))))))))))))))))))) :: []))) :: (
       (jk (String ((Ascii (true, true, false, false, false, true, true,
         false)), (String ((Ascii (false, false, false, true, false, true,
         true, false)), (String ((Ascii (true, false, false, true, false,
         true, true, false)), (String ((Ascii (false, false, true, true,
         false, true, true, false)), (String ((Ascii (false, false, true,
         false, false, true, true, false)), (String ((Ascii (false, true,
         false, false, true, true, true, false)), (String ((Ascii (true,
         false, true, false, false, true, true, false)), (String ((Ascii
         (false, true, true, true, false, true, true, false)),
         EmptyString)))))))))))))))) (JArr (encl ch))) :: ((jk (String
                                                             ((Ascii (true,
                                                             true, false,
                                                             false, false,
                                                             true, true,
                                                             false)), (String
                                                             ((Ascii (false,
                                                             false, true,
                                                             true, false,
                                                             true, true,
                                                             false)), (String
                                                             ((Ascii (true,
                                                             true, true,
                                                             true, false,
                                                             true, true,
                                                             false)), (String
                                                             ((Ascii (true,
                                                             true, false,
                                                             false, true,
                                                             true, true,
                                                             false)), (String
                                                             ((Ascii (true,
                                                             false, false,
                                                             true, false,
                                                             true, true,
                                                             false)), (String
                                                             ((Ascii (false,
                                                             true, true,
                                                             true, false,
                                                             true, true,
                                                             false)), (String
                                                             ((Ascii (true,
                                                             true, true,
                                                             false, false,
                                                             true, true,
                                                             false)),
                                                             EmptyString))))))))))))))
                                                             (JObj
                                                             ((jty (String
                                                                ((Ascii
                                                                (false, true,
                                                                false, true,
                                                                false, false,
                                                                true,
                                                                false)),
                                                                (String
                                                                ((Ascii
                                                                (true, true,
                                                                false, false,
                                                                true, false,
                                                                true,
                                                                false)),
                                                                (String
                                                                ((Ascii
                                                                (false,
                                                                false, false,
                                                                true, true,
                                                                false, true,
                                                                false)),
                                                                (String
                                                                ((Ascii
                                                                (true, true,
                                                                false, false,
                                                                false, false,
                                                                true,
                                                                false)),
                                                                (String
                                                                ((Ascii
                                                                (false,
                                                                false, true,
                                                                true, false,
                                                                true, true,
                                                                false)),
                                                                (String
                                                                ((Ascii
                                                                (true, true,
                                                                true, true,
                                                                false, true,
                                                                true,
                                                                false)),
                                                                (String
                                                                ((Ascii
                                                                (true, true,
                                                                false, false,
                                                                true, true,
                                                                true,
                                                                false)),
                                                                (String
                                                                ((Ascii
                                                                (true, false,
                                                                false, true,
                                                                false, true,
                                                                true,
                                                                false)),
                                                                (String
                                                                ((Ascii
                                                                (false, true,
                                                                true, true,
                                                                false, true,
                                                                true,
                                                                false)),
                                                                (String
                                                                ((Ascii
                                                                (true, true,
                                                                true, false,
                                                                false, true,
                                                                true,
                                                                false)),
                                                                (String
                                                                ((Ascii
                                                                (false, true,
                                                                true, false,
                                                                false, false,
                                                                true,
                                                                false)),
                                                                (String
                                                                ((Ascii
                                                                (false, true,
                                                                false, false,
                                                                true, true,
                                                                true,
                                                                false)),
                                                                (String
                                                                ((Ascii
                                                                (true, false,
                                                                false, false,
                                                                false, true,
                                                                true,
                                                                false)),
                                                                (String
                                                                ((Ascii
                                                                (true, true,
                                                                true, false,
                                                                false, true,
                                                                true,
                                                                false)),
                                                                (String
                                                                ((Ascii
                                                                (true, false,
                                                                true, true,
                                                                false, true,
                                                                true,
                                                                false)),
                                                                (String
                                                                ((Ascii
                                                                (true, false,
                                                                true, false,
                                                                false, true,
                                                                true,
                                                                false)),
                                                                (String
                                                                ((Ascii
                                                                (false, true,
                                                                true, true,
                                                                false, true,
                                                                true,
                                                                false)),
                                                                (String
                                                                ((Ascii
                                                                (false,
                                                                false, true,
                                                                false, true,
                                                                true, true,
                                                                false)),
                                                                EmptyString))))))))))))))))))))))))))))))))))))) :: []))) :: []))))
   | JAttr (nm, v) ->
     JObj
       ((jty (String ((Ascii (false, true, false, true, false, false, true,
          false)), (String ((Ascii (true, true, false, false, true, false,
          true, false)), (String ((Ascii (false, false, false, true, true,
          false, true, false)), (String ((Ascii (true, false, false, false,
          false, false, true, false)), (String ((Ascii (false, false, true,
          false, true, true, true, false)), (String ((Ascii (false, false,
          true, false, true, true, true, false)), (String ((Ascii (false,
          true, false, false, true, true, true, false)), (String ((Ascii
          (true, false, false, true, false, true, true, false)), (String
          ((Ascii (false, true, false, false, false, true, true, false)),
          (String ((Ascii (true, false, true, false, true, true, true,
          false)), (String ((Ascii (false, false, true, false, true, true,
          true, false)), (String ((Ascii (true, false, true, false, false,
          true, true, false)), EmptyString))))))))))))))))))))))))) :: (
       (jk (String ((Ascii (false, true, true, true, false, true, true,
         false)), (String ((Ascii (true, false, false, false, false, true,
         true, false)), (String ((Ascii (true, false, true, true, false,
         true, true, false)), (String ((Ascii (true, false, true, false,
         false, true, true, false)), EmptyString)))))))) (enc nm)) :: (
       (jk (String ((Ascii (false, true, true, false, true, true, true,
         false)), (String ((Ascii (true, false, false, false, false, true,
         true, false)), (String ((Ascii (false, false, true, true, false,
         true, true, false)), (String ((Ascii (true, false, true, false,
         true, true, true, false)), (String ((Ascii (true, false, true,
         false, false, true, true, false)), EmptyString)))))))))) (enc v)) :: [])))
   | JNs (a, b) ->
     JObj
       ((jty (String ((Ascii (false, true, false, true, false, false, true,
          false)), (String ((Ascii (true, true, false, false, true, false,
          true, false)), (String ((Ascii (false, false, false, true, true,
          false, true, false)), (String ((Ascii (false, true, true, true,
          false, false, true, false)), (String ((Ascii (true, false, false,
          false, false, true, true, false)), (String ((Ascii (true, false,
          true, true, false, true, true, false)), (String ((Ascii (true,
          false, true, false, false, true, true, false)), (String ((Ascii
          (true, true, false, false, true, true, true, false)), (String
          ((Ascii (false, false, false, false, true, true, true, false)),
          (String ((Ascii (true, false, false, false, false, true, true,
          false)), (String ((Ascii (true, true, false, false, false, true,
          true, false)), (String ((Ascii (true, false, true, false, false,
          true, true, false)), (String ((Ascii (false, false, true, false,
          false, true, true, false)), (String ((Ascii (false, true, true,
          true, false, false, true, false)), (String ((Ascii (true, false,
          false, false, false, true, true, false)), (String ((Ascii (true,
          false, true, true, false, true, true, false)), (String ((Ascii
          (true, false, true, false, false, true, true, false)),
          EmptyString))))))))))))))))))))))))))))))))))) :: ((jk (String
                                                               ((Ascii
                                                               (false, true,
                                                               true, true,
                                                               false, true,
                                                               true, false)),
                                                               (String
                                                               ((Ascii (true,
                                                               false, false,
                                                               false, false,
                                                               true, true,
                                                               false)),
                                                               (String
                                                               ((Ascii (true,
                                                               false, true,
                                                               true, false,
                                                               true, true,
                                                               false)),
                                                               (String
                                                               ((Ascii (true,
                                                               false, true,
                                                               false, false,
                                                               true, true,
                                                               false)),
                                                               (String
                                                               ((Ascii (true,
                                                               true, false,
                                                               false, true,
                                                               true, true,
                                                               false)),
                                                               (String
                                                               ((Ascii
                                                               (false, false,
                                                               false, false,
                                                               true, true,
                                                               true, false)),
                                                               (String
                                                               ((Ascii (true,
                                                               false, false,
                                                               false, false,
                                                               true, true,
                                                               false)),
                                                               (String
                                                               ((Ascii (true,
                                                               true, false,
                                                               false, false,
                                                               true, true,
                                                               false)),
                                                               (String
                                                               ((Ascii (true,
                                                               false, true,
                                                               false, false,
                                                               true, true,
                                                               false)),
                                                               EmptyString))))))))))))))))))
                                                               (enc a)) :: (
       (jk (String ((Ascii (false, true, true, true, false, true, true,
         false)), (String ((Ascii (true, false, false, false, false, true,
         true, false)), (String ((Ascii (true, false, true, true, false,
         true, true, false)), (String ((Ascii (true, false, true, false,
         false, true, true, false)), EmptyString)))))))) (enc b)) :: [])))
   | JExprC e ->
     JObj
       ((jty (String ((Ascii (false, true, false, true, false, false, true,
          false)), (String ((Ascii (true, true, false, false, true, false,
          true, false)), (String ((Ascii (false, false, false, true, true,
          false, true, false)), (String ((Ascii (true, false, true, false,
          false, false, true, false)), (String ((Ascii (false, false, false,
          true, true, true, true, false)), (String ((Ascii (false, false,
          false, false, true, true, true, false)), (String ((Ascii (false,
          true, false, false, true, true, true, false)), (String ((Ascii
          (true, false, true, false, false, true, true, false)), (String
          ((Ascii (true, true, false, false, true, true, true, false)),
          (String ((Ascii (true, true, false, false, true, true, true,
          false)), (String ((Ascii (true, false, false, true, false, true,
          true, false)), (String ((Ascii (true, true, true, true, false,
          true, true, false)), (String ((Ascii (false, true, true, true,
          false, true, true, false)), (String ((Ascii (true, true, false,
          false, false, false, true, false)), (String ((Ascii (true, true,
          true, true, false, true, true, false)), (String ((Ascii (false,
          true, true, true, false, true, true, false)), (String ((Ascii
          (false, false, true, false, true, true, true, false)), (String
          ((Ascii (true, false, false, false, false, true, true, false)),
          (String ((Ascii (true, false, false, true, false, true, true,
          false)), (String ((Ascii (false, true, true, true, false, true,
          true, false)), (String ((Ascii (true, false, true, false, false,
          true, true, false)), (String ((Ascii (false, true, false, false,
          true, true, true, false)),
          EmptyString))))))))))))))))))))))))))))))))))))))))))))) :: (
       (jk (String ((Ascii (true, false, true, false, false, true, true,
         false)), (String ((Ascii (false, false, false, true, true, true,
         true, false)), (String ((Ascii (false, false, false, false, true,
         true, true, false)), (String ((Ascii (false, true, false, false,
         true, true, true, false)), (String ((Ascii (true, false, true,
         false, false, true, true, false)), (String ((Ascii (true, true,
         false, false, true, true, true, false)), (String ((Ascii (true,
         true, false, false, true, true, true, false)), (String ((Ascii
         (true, false, false, true, false, true, true, false)), (String
         ((Ascii (true, true, true, true, false, true, true, false)), (String
         ((Ascii (false, true, true, true, false, true, true, false)),
         EmptyString)))))))))))))))))))) (enc e)) :: []))
   | JEmpty ->
     JObj
       ((jty (String ((Ascii (false, true, false, true, false, false, true,
          false)), (String ((Ascii (true, true, false, false, true, false,
          true, false)), (String ((Ascii (false, false, false, true, true,
          false, true, false)), (String ((Ascii (true, false, true, false,
          false, false, true, false)), (String ((Ascii (true, false, true,
          true, false, true, true, false)), (String ((Ascii (false, false,
          false, false, true, true, true, false)), (String ((Ascii (false,
          false, true, false, true, true, true, false)), (String ((Ascii
          (true, false, false, true, true, true, true, false)), (String
          ((Ascii (true, false, true, false, false, false, true, false)),
          (String ((Ascii (false, false, false, true, true, true, true,
          false)), (String ((Ascii (false, false, false, false, true, true,
          true, false)), (String ((Ascii (false, true, false, false, true,
          true, true, false)), (String ((Ascii (true, false, true, false,
          false, true, true, false)), (String ((Ascii (true, true, false,
          false, true, true, true, false)), (String ((Ascii (true, true,
          false, false, true, true, true, false)), (String ((Ascii (true,
          false, false, true, false, true, true, false)), (String ((Ascii
          (true, true, true, true, false, true, true, false)), (String
          ((Ascii (false, true, true, true, false, true, true, false)),
          EmptyString))))))))))))))))))))))))))))))))))))) :: [])
   | JText (v, w) ->
     JObj
       ((jty (String ((Ascii (false, true, false, true, false, false, true,
          false)), (String ((Ascii (true, true, false, false, true, false,
          true, false)), (String ((Ascii (false, false, false, true, true,
          false, true, false)), (String ((Ascii (false, false, true, false,
          true, false, true, false)), (String ((Ascii (true, false, true,
          false, false, true, true, false)), (String ((Ascii (false, false,
          false, true, true, true, true, false)), (String ((Ascii (false,
          false, true, false, true, true, true, false)),
          EmptyString))))))))))))))) :: ((jk (String ((Ascii (false, true,
                                           true, false, true, true, true,
                                           false)), (String ((Ascii (true,
                                           false, false, false, false, true,
                                           true, false)), (String ((Ascii
                                           (false, false, true, true, false,
                                           true, true, false)), (String
                                           ((Ascii (true, false, true, false,
                                           true, true, true, false)), (String
                                           ((Ascii (true, false, true, false,
                                           false, true, true, false)),
                                           EmptyString)))))))))) (JStr v)) :: (
       (jk (String ((Ascii (false, true, false, false, true, true, true,
         false)), (String ((Ascii (true, false, false, false, false, true,
         true, false)), (String ((Ascii (true, true, true, false, true, true,
         true, false)), EmptyString)))))) (JStr w)) :: [])))
   | JSpreadChild e ->
     JObj
       ((jty (String ((Ascii (false, true, false, true, false, false, true,
          false)), (String ((Ascii (true, true, false, false, true, false,
          true, false)), (String ((Ascii (false, false, false, true, true,
          false, true, false)), (String ((Ascii (true, true, false, false,
          true, false, true, false)), (String ((Ascii (false, false, false,
          false, true, true, true, false)), (String ((Ascii (false, true,
          false, false, true, true, true, false)), (String ((Ascii (true,
          false, true, false, false, true, true, false)), (String ((Ascii
          (true, false, false, false, false, true, true, false)), (String
          ((Ascii (false, false, true, false, false, true, true, false)),
          (String ((Ascii (true, true, false, false, false, false, true,
          false)), (String ((Ascii (false, false, false, true, false, true,
          true, false)), (String ((Ascii (true, false, false, true, false,
          true, true, false)), (String ((Ascii (false, false, true, true,
          false, true, true, false)), (String ((Ascii (false, false, true,
          false, false, true, true, false)),
          EmptyString))))))))))))))))))))))))))))) :: ((jk (String ((Ascii
                                                         (true, false, true,
                                                         false, false, true,
                                                         true, false)),
                                                         (String ((Ascii
                                                         (false, false,
                                                         false, true, true,
                                                         true, true, false)),
                                                         (String ((Ascii
                                                         (false, false,
                                                         false, false, true,
                                                         true, true, false)),
                                                         (String ((Ascii
                                                         (false, true, false,
                                                         false, true, true,
                                                         true, false)),
                                                         (String ((Ascii
                                                         (true, false, true,
                                                         false, false, true,
                                                         true, false)),
                                                         (String ((Ascii
                                                         (true, true, false,
                                                         false, true, true,
                                                         true, false)),
                                                         (String ((Ascii
                                                         (true, true, false,
                                                         false, true, true,
                                                         true, false)),
                                                         (String ((Ascii
                                                         (true, false, false,
                                                         true, false, true,
                                                         true, false)),
                                                         (String ((Ascii
                                                         (true, true, true,
                                                         true, false, true,
                                                         true, false)),
                                                         (String ((Ascii
                                                         (false, true, true,
                                                         true, false, true,
                                                         true, false)),
                                                         EmptyString))))))))))))))))))))
                                                         (enc e)) :: [])))

(** val ntype : node -> str **)

let ntype = function
| NObj l ->
  (match l with
   | [] -> []
   | n0 :: _ ->
     (match n0 with
      | Field (kt, v) ->
        (match v with
         | NScalar j ->
           (match j with
            | JStr ty ->
              if sq (String ((Ascii (false, false, true, false, true, true,
                   true, false)), (String ((Ascii (true, false, false, true,
                   true, true, true, false)), (String ((Ascii (false, false,
                   false, false, true, true, true, false)), (String ((Ascii
                   (true, false, true, false, false, true, true, false)),
                   EmptyString)))))))) kt
              then ty
              else []
            | _ -> [])
         | _ -> [])
      | _ -> []))
| _ -> []

(** val nget : string -> node list -> node option **)

let rec nget k = function
| [] -> None
| n :: r ->
  (match n with
   | Field (k', v) -> if sq k k' then Some v else nget k r
   | _ -> nget k r)

(** val nfield : string -> node -> node option **)

let nfield k = function
| NObj fs -> nget k fs
| _ -> None

(** val is_nnull : node -> bool **)

let is_nnull = function
| NScalar j -> (match j with
                | JNull -> true
                | _ -> false)
| _ -> false
