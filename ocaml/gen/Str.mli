open Ascii
open BinNat
open BinNums
open Datatypes
open List
open String

type str = coq_N list

val str_eqb : str -> str -> bool

val s_ : string -> str

val c_ : string -> coq_N

val starts_with : str -> str -> bool

val strip_prefix : str -> str -> str option

val split_on : coq_N -> str -> str list

val join : str -> str list -> str

val replace_char : coq_N -> coq_N -> str -> str

val replace_crlf : str -> str

val trim_start_c : coq_N -> str -> str

val trim_end_c : coq_N -> str -> str

val is_ws : coq_N -> bool

val trim_start : str -> str

val take_non_ws : str -> str

val first_word : str -> str option

val is_ascii_lower : coq_N -> bool

val is_ascii_upper : coq_N -> bool

val to_ascii_lower : coq_N -> coq_N

val lower_str : str -> str

val eq_ignore_ascii_case : str -> str -> bool

val str_ltb : str -> str -> bool

val mem_str : str -> str list -> bool

val set_insert : str -> str list -> str list

val iset_insert : str -> str list -> str list

val dec_digits : nat -> coq_N -> str -> str

val dec_of_N : coq_N -> str

val coq_N_of_dec_aux : str -> coq_N -> coq_N option

val coq_N_of_dec : str -> coq_N option
