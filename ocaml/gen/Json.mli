open Ascii
open BinNat
open BinNums
open Bool
open Datatypes
open Str
open String

type jv =
| JNull
| JBool of bool
| JNum of str
| JStr of str
| JArr of jv list
| JObj of (str * jv) list

val jv_eqb : jv -> jv -> bool

val jget : str -> (str * jv) list -> jv option

val jfield : str -> jv -> jv option

val jstr : jv -> str option

val jnat : jv -> coq_N option

val jarr : jv -> jv list

val gen_base : coq_N

val assoc_N : coq_N -> (coq_N * coq_N) list -> coq_N option

val canon_ctx : coq_N -> (coq_N * coq_N) list -> coq_N * (coq_N * coq_N) list

val canon : jv -> (coq_N * coq_N) list -> jv * (coq_N * coq_N) list
