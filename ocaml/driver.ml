(* Hand-written glue around the extracted model: reads the harness's line-token format,
   builds the extracted [Json.jv] values, calls [Run.run_case] and prints one line per case.
   No model logic lives here. *)
let rec pos_of_int (n : int) : BinNums.positive =
  if n = 1 then BinNums.Coq_xH
  else if n land 1 = 0 then BinNums.Coq_xO (pos_of_int (n lsr 1))
  else BinNums.Coq_xI (pos_of_int (n lsr 1))
let n_of_int (n : int) : BinNums.coq_N = if n = 0 then BinNums.N0 else BinNums.Npos (pos_of_int n)
let rec int_of_pos = function
  | BinNums.Coq_xH -> 1
  | BinNums.Coq_xO p -> 2 * int_of_pos p
  | BinNums.Coq_xI p -> 2 * int_of_pos p + 1
let int_of_n = function BinNums.N0 -> 0 | BinNums.Npos p -> int_of_pos p

let str_of_cps (s : string) : BinNums.coq_N list =
  if s = "" then []
  else Stdlib.List.map (fun x -> n_of_int (int_of_string x)) (Stdlib.String.split_on_char ',' s)
let str_of_ascii (s : string) : BinNums.coq_N list =
  Stdlib.List.init (Stdlib.String.length s) (fun i -> n_of_int (Char.code (Stdlib.String.get s i)))

let utf8_of_cps (l : BinNums.coq_N list) : string =
  let b = Buffer.create 16 in
  Stdlib.List.iter (fun c -> Buffer.add_utf_8_uchar b (Uchar.of_int (int_of_n c))) l;
  Buffer.contents b

let rec parse (ic : in_channel) : Json.jv =
  let line = input_line ic in
  let rest = Stdlib.String.sub line 1 (Stdlib.String.length line - 1) in
  match Stdlib.String.get line 0 with
  | 'N' -> Json.JNull
  | 'T' -> Json.JBool true
  | 'F' -> Json.JBool false
  | '#' -> Json.JNum (str_of_ascii rest)
  | '"' -> Json.JStr (str_of_cps rest)
  | '[' ->
      let n = int_of_string rest in
      let rec go i acc = if i = 0 then Stdlib.List.rev acc else let v = parse ic in go (i - 1) (v :: acc) in
      Json.JArr (go n [])
  | '{' ->
      let n = int_of_string rest in
      let rec go i acc =
        if i = 0 then Stdlib.List.rev acc
        else
          let k = (match parse ic with Json.JStr s -> s | _ -> failwith "key") in
          let v = parse ic in
          go (i - 1) ((k, v) :: acc) in
      Json.JObj (go n [])
  | _ -> failwith ("bad token: " ^ line)

let json_escape (s : string) : string =
  let b = Buffer.create (Stdlib.String.length s + 2) in
  Buffer.add_char b '"';
  Stdlib.String.iter (fun c ->
    match c with
    | '"' -> Buffer.add_string b "\\\""
    | '\\' -> Buffer.add_string b "\\\\"
    | '\n' -> Buffer.add_string b "\\n"
    | '\r' -> Buffer.add_string b "\\r"
    | '\t' -> Buffer.add_string b "\\t"
    | c when Char.code c < 32 -> Buffer.add_string b (Printf.sprintf "\\u%04x" (Char.code c))
    | c -> Buffer.add_char b c) s;
  Buffer.add_char b '"';
  Buffer.contents b

let rec print_json (b : Buffer.t) (j : Json.jv) : unit =
  match j with
  | Json.JNull -> Buffer.add_string b "null"
  | Json.JBool true -> Buffer.add_string b "true"
  | Json.JBool false -> Buffer.add_string b "false"
  | Json.JNum s -> Buffer.add_string b (utf8_of_cps s)
  | Json.JStr s -> Buffer.add_string b (json_escape (utf8_of_cps s))
  | Json.JArr l ->
      Buffer.add_char b '[';
      Stdlib.List.iteri (fun i x -> if i > 0 then Buffer.add_char b ','; print_json b x) l;
      Buffer.add_char b ']'
  | Json.JObj l ->
      Buffer.add_char b '{';
      Stdlib.List.iteri (fun i (k, x) ->
        if i > 0 then Buffer.add_char b ',';
        Buffer.add_string b (json_escape (utf8_of_cps k));
        Buffer.add_char b ':';
        print_json b x) l;
      Buffer.add_char b '}'

let b2s b = if b then "1" else "0"

let () =
  match Sys.argv.(1) with
  | "cases" ->
      (* cases <file.tok> <dump-dir> *)
      let ic = open_in Sys.argv.(2) in
      let dump = Sys.argv.(3) in
      let vout = open_out (Sys.argv.(2) ^ ".views.jsonl") in
      (try
        while true do
          let c = parse ic in
          let id = (match Json.jfield (str_of_ascii "id") c with
                    | Some (Json.JNum s) -> utf8_of_cps s
                    | Some (Json.JStr s) -> utf8_of_cps s
                    | _ -> "?") in
          let r = Run.run_case c in
          Printf.printf "id=%s relevant=%s roundtrip=%s status=%s out=%s diag=%s %s\n" id
            (b2s r.Run.cr_relevant) (b2s r.Run.cr_roundtrip) (b2s r.Run.cr_same_status)
            (b2s r.Run.cr_same_out) (b2s r.Run.cr_same_diag)
            (Stdlib.String.concat " " (Stdlib.List.map (fun (k, v) -> utf8_of_cps k ^ "=" ^ utf8_of_cps v) r.Run.cr_extra));
          (match r.Run.cr_views with
           | Json.JNull -> ()
           | v ->
               let b = Buffer.create 1024 in
               Buffer.add_string b ("{\"id\":" ^ json_escape id ^ ",\"views\":");
               print_json b v; Buffer.add_string b "}\n";
               Buffer.output_buffer vout b);
          if r.Run.cr_relevant && not (r.Run.cr_same_out && r.Run.cr_same_diag && r.Run.cr_same_status && r.Run.cr_roundtrip) then begin
            let b = Buffer.create 4096 in
            Buffer.add_string b "{\"model_out\":";
            print_json b r.Run.cr_model_out;
            Buffer.add_string b ",\"model_diags\":[";
            Stdlib.List.iteri (fun i d -> if i > 0 then Buffer.add_char b ','; Buffer.add_string b (json_escape (utf8_of_cps d))) r.Run.cr_model_diags;
            Buffer.add_string b "],\"real_out\":";
            print_json b (match Json.jfield (str_of_ascii "output") c with Some v -> v | None -> Json.JNull);
            Buffer.add_string b ",\"input\":";
            print_json b (match Json.jfield (str_of_ascii "input") c with Some v -> v | None -> Json.JNull);
            Buffer.add_string b "}";
            let oc = open_out (Filename.concat dump (id ^ ".diff.json")) in
            Buffer.output_buffer oc b;
            close_out oc
          end
        done
      with End_of_file -> close_out vout)
  | "text" ->
      let ic = open_in Sys.argv.(2) in
      (try
        while true do
          let line = input_line ic in
          let show r = Stdlib.String.concat "," (Stdlib.List.map (fun c -> string_of_int (int_of_n c)) r) in
          let s = str_of_cps line in
          (* model of transform_text ; the independent specification jsx_clean *)
          print_endline (show (Text.transform_text s) ^ ";" ^ show (JsxText.jsx_clean s))
        done
      with End_of_file -> ())
  | _ -> prerr_endline "usage: driver cases <tok> <dumpdir> | text <file>"
